(** C19: closed forms of the write loops (flush_buf, File::write_all) over the file with a failure point. *)
From RS Require Import Base.Bytes Base.Outcome Pkt.Pcap Interp.Io Proofs.BytesLemmas.
From Coq Require Import ZArith Lia ZifyBool ZifyNat ZifyN.
Ltac Zify.zify_post_hook ::= Z.div_mod_to_equations.
Open Scope N_scope.

(** *** list helpers *)
Lemma len_length {A} (l : list A) : len l = N.of_nat (length l). Proof. reflexivity. Qed.

Lemma len_zero_nil {A} (l : list A) : len l = 0 -> l = [].
Proof. destruct l; [reflexivity|]. unfold len. cbn [length]. lia. Qed.

Lemma len_pos_cons {A} (x : A) l : 0 < len (x :: l).
Proof. unfold len. cbn [length]. lia. Qed.

Lemma takeN_all {A} (n : N) (l : list A) : len l <= n -> takeN n l = l.
Proof. intros H. unfold takeN. apply firstn_all2. unfold len in H. lia. Qed.

Lemma dropN_all {A} (n : N) (l : list A) : len l <= n -> dropN n l = [].
Proof. intros H. unfold dropN. apply skipn_all2. unfold len in H. lia. Qed.

Lemma takeN_dropN {A} (n : N) (l : list A) : takeN n l ++ dropN n l = l.
Proof. unfold takeN, dropN. apply firstn_skipn. Qed.

Lemma takeN_0 {A} (l : list A) : takeN 0 l = []. Proof. reflexivity. Qed.
Lemma dropN_0 {A} (l : list A) : dropN 0 l = l. Proof. reflexivity. Qed.

Lemma len_takeN {A} (n : N) (l : list A) : len (takeN n l) = N.min n (len l).
Proof. unfold len, takeN. rewrite firstn_length. lia. Qed.

Lemma len_dropN {A} (n : N) (l : list A) : len (dropN n l) = len l - n.
Proof. unfold len, dropN. rewrite skipn_length. lia. Qed.

Lemma length_dropN_lt {A} (n : N) (l : list A) : 0 < n -> l <> [] -> (length (dropN n l) < length l)%nat.
Proof.
  intros Hn Hl. unfold dropN. rewrite skipn_length. destruct l; [congruence|]. cbn [length]. lia.
Qed.

(** *** one write(2) *)
Definition fits (limit : option N) (f c : bytes) : bool :=
  match limit with None => true | Some L => len f + len c <=? L end.

(** how many bytes can still go into the file *)
Definition room (limit : option N) (f : bytes) : N :=
  match limit with None => 0 | Some L => L - len f end.

Lemma fwrite_nonempty limit f c : c <> [] ->
  fwrite limit f c =
  match limit with
  | None => Some (len c, f ++ c)
  | Some L => if L <=? len f then None
              else let n := N.min (len c) (L - len f) in Some (n, f ++ takeN n c)
  end.
Proof. destruct c; [congruence|reflexivity]. Qed.

Lemma len_pos {A} (c : list A) : c <> [] -> 0 < len c.
Proof. destruct c; [congruence|intros _; apply len_pos_cons]. Qed.

Lemma dropN_nonempty {A} n (c : list A) : n < len c -> dropN n c <> [].
Proof. intros H E. apply (f_equal len) in E. rewrite len_dropN in E. unfold len at 2 in E. cbn in E. lia. Qed.

(** *** File::write_all *)
Definition file_write_all_spec (limit : option N) (f c : bytes) : outcome unit * bytes :=
  match c with
  | [] => (Ok tt, f)
  | _ => if fits limit f c then (Ok tt, f ++ c) else (Err EIo, f ++ takeN (room limit f) c)
  end.

Lemma file_write_all_nil fuel limit f : file_write_all fuel limit f [] = (Ok tt, f).
Proof. destruct fuel; reflexivity. Qed.

Lemma file_write_all_step fuel limit f c : c <> [] ->
  file_write_all (S fuel) limit f c =
  match fwrite limit f c with
  | None => (Err EIo, f)
  | Some (n, f') => if n =? 0 then (Err EIo, f') else file_write_all fuel limit f' (dropN n c)
  end.
Proof. destruct c; [congruence|reflexivity]. Qed.

Lemma file_write_all_closed limit : forall fuel f c, (length c <= fuel)%nat ->
  file_write_all fuel limit f c = file_write_all_spec limit f c.
Proof.
  intros fuel f c Hfuel.
  destruct (list_eq_dec N.eq_dec c []) as [->|Hne]; [apply file_write_all_nil|].
  assert (Hc : 0 < len c) by (apply len_pos; exact Hne).
  assert (Hspec : file_write_all_spec limit f c =
                  if fits limit f c then (Ok tt, f ++ c) else (Err EIo, f ++ takeN (room limit f) c))
    by (destruct c; [congruence|reflexivity]).
  rewrite Hspec. clear Hspec.
  destruct fuel as [|fuel]; [unfold len in Hc; lia|].
  rewrite file_write_all_step, fwrite_nonempty by exact Hne.
  destruct limit as [L|]; cbn [fits room].
  - destruct (L <=? len f) eqn:E1.
    + replace (len f + len c <=? L) with false by lia.
      replace (L - len f) with 0 by lia. rewrite takeN_0, app_nil_r. reflexivity.
    + cbv zeta. destruct (len f + len c <=? L) eqn:E2.
      * replace (N.min (len c) (L - len f)) with (len c) by lia.
        replace (len c =? 0) with false by lia.
        rewrite takeN_all, dropN_all by lia. apply file_write_all_nil.
      * replace (N.min (len c) (L - len f)) with (L - len f) by lia.
        replace (L - len f =? 0) with false by lia.
        set (n := L - len f).
        assert (Hrest : dropN n c <> []) by (apply dropN_nonempty; lia).
        assert (Hl : (length (dropN n c) < length c)%nat) by (apply length_dropN_lt; [lia|exact Hne]).
        destruct fuel as [|fuel]; [apply len_pos in Hrest; unfold len in Hrest; lia|].
        rewrite file_write_all_step, fwrite_nonempty by exact Hrest.
        replace (L <=? len (f ++ takeN n c)) with true
          by (rewrite len_app, len_takeN; lia).
        reflexivity.
  - replace (len c =? 0) with false by lia.
    rewrite dropN_all by lia. apply file_write_all_nil.
Qed.

(** *** flush_buf *)
Definition flush_spec (limit : option N) (f rem : bytes) : outcome unit * bufw :=
  match rem with
  | [] => (Ok tt, {| bw_file := f; bw_buf := [] |})
  | _ => if fits limit f rem then (Ok tt, {| bw_file := f ++ rem; bw_buf := [] |})
         else (Err EIo, {| bw_file := f ++ takeN (room limit f) rem; bw_buf := dropN (room limit f) rem |})
  end.

Lemma flush_loop_nil fuel limit f : flush_loop limit fuel f [] = (Ok tt, {| bw_file := f; bw_buf := [] |}).
Proof. destruct fuel; reflexivity. Qed.

Lemma flush_loop_step fuel limit f c : c <> [] ->
  flush_loop limit (S fuel) f c =
  match fwrite limit f c with
  | None => (Err EIo, {| bw_file := f; bw_buf := c |})
  | Some (n, f') => if n =? 0 then (Err EIo, {| bw_file := f'; bw_buf := c |})
                    else flush_loop limit fuel f' (dropN n c)
  end.
Proof. destruct c; [congruence|reflexivity]. Qed.

Lemma flush_loop_closed limit : forall fuel f rem, (length rem <= fuel)%nat ->
  flush_loop limit fuel f rem = flush_spec limit f rem.
Proof.
  intros fuel f c Hfuel.
  destruct (list_eq_dec N.eq_dec c []) as [->|Hne]; [apply flush_loop_nil|].
  assert (Hc : 0 < len c) by (apply len_pos; exact Hne).
  assert (Hspec : flush_spec limit f c =
    if fits limit f c then (Ok tt, {| bw_file := f ++ c; bw_buf := [] |})
    else (Err EIo, {| bw_file := f ++ takeN (room limit f) c; bw_buf := dropN (room limit f) c |}))
    by (destruct c; [congruence|reflexivity]).
  rewrite Hspec. clear Hspec.
  destruct fuel as [|fuel]; [unfold len in Hc; lia|].
  rewrite flush_loop_step, fwrite_nonempty by exact Hne.
  destruct limit as [L|]; cbn [fits room].
  - destruct (L <=? len f) eqn:E1.
    + replace (len f + len c <=? L) with false by lia.
      replace (L - len f) with 0 by lia. rewrite takeN_0, dropN_0, app_nil_r. reflexivity.
    + cbv zeta. destruct (len f + len c <=? L) eqn:E2.
      * replace (N.min (len c) (L - len f)) with (len c) by lia.
        replace (len c =? 0) with false by lia.
        rewrite takeN_all, dropN_all by lia. apply flush_loop_nil.
      * replace (N.min (len c) (L - len f)) with (L - len f) by lia.
        replace (L - len f =? 0) with false by lia.
        set (n := L - len f).
        assert (Hrest : dropN n c <> []) by (apply dropN_nonempty; lia).
        assert (Hl : (length (dropN n c) < length c)%nat) by (apply length_dropN_lt; [lia|exact Hne]).
        destruct fuel as [|fuel]; [apply len_pos in Hrest; unfold len in Hrest; lia|].
        rewrite flush_loop_step, fwrite_nonempty by exact Hrest.
        replace (L <=? len (f ++ takeN n c)) with true
          by (rewrite len_app, len_takeN; lia).
        reflexivity.
  - replace (len c =? 0) with false by lia.
    rewrite dropN_all by lia. apply flush_loop_nil.
Qed.

Lemma flush_buf_closed limit w : flush_buf limit w = flush_spec limit (bw_file w) (bw_buf w).
Proof. unfold flush_buf. apply flush_loop_closed. lia. Qed.
