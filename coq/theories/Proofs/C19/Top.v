(** C19: the statements about the whole pipeline, instantiated with the concrete library. *)
From RS Require Import Base.Bytes Base.Outcome Bind.Types Pkt.Pcap Lex.Tokens Interp.Val Interp.Eval Interp.Cli
  Interp.Run Interp.Io Interp.IoRun Lib.LibBase Lib.StdLib Proofs.BytesLemmas Proofs.C19.Loops Proofs.C19.Writer
  Proofs.C19.Session Proofs.C19.ReportPoint Proofs.C19.Report Proofs.C19.Pipeline Proofs.C19.PipelineSession
  Proofs.C19.TraceRun.
From RSGen Require Import Catalogue.
From Coq Require Import ZArith Lia ZifyBool ZifyNat ZifyN.
Open Scope list_scope.
Open Scope N_scope.

(** the model with the BufWriter threaded through is the fault-free trace replayed *)
Theorem compile_is_replay keep limit create_ok files input :
  compile_with_faults keep limit create_ok files input = compile_via_trace keep limit create_ok files input.
Proof.
  unfold compile_with_faults, compile_via_trace. f_equal.
  unfold process_file_io, trace_file, replay_file, verdict_of_pf.
  destruct input as [| |src]; [reflexivity| |].
  - destruct create_ok; cbn [negb]; [|reflexivity].
    destruct (pw_create CAP limit) as [r0 w0]. destruct r0 as [[]|e|s|]; try reflexivity.
  - destruct create_ok; cbn [negb]; [|reflexivity].
    destruct (pw_create CAP limit) as [r0 w0]. destruct r0 as [[]|e|s|]; try reflexivity.
    apply process_input_replay.
Qed.

(** ... which is the writer session over the trace's records *)
Theorem compile_is_session keep limit create_ok files input evs te :
  trace_file files input = Some (evs, te) ->
  compile_with_faults keep limit create_ok files input =
  report_of_verdict keep
    (verdict_of_session evs te (session_io CAP limit create_ok (map snd evs) (ending_of te))).
Proof.
  intros Ht. rewrite compile_is_replay. unfold compile_via_trace. rewrite Ht. rewrite replay_is_session. reflexivity.
Qed.

Lemma trace_none files input : trace_file files input = None -> input = InNoOpen.
Proof. destruct input; [reflexivity|discriminate|discriminate]. Qed.

(** "ok" is printed only when the fault-free run ends without error, the file could be created,
    and the file holds the complete fault-free output *)
Theorem pipeline_ok_complete keep limit create_ok files input :
  says_ok (fst (compile_with_faults keep limit create_ok files input)) = true ->
  exists evs, trace_file files input = Some (evs, TeOk)
    /\ create_ok = true
    /\ rp_file (fst (compile_with_faults keep limit create_ok files input)) = Some (pcap_ghdr ++ concat (map snd evs))
    /\ rp_exit (fst (compile_with_faults keep limit create_ok files input)) = 0.
Proof.
  destruct (trace_file files input) as [[evs te]|] eqn:Ht.
  - rewrite (compile_is_session keep limit create_ok files input evs te Ht).
    unfold verdict_of_session, report_of_verdict.
    destruct (session_io_outcomes CAP limit create_ok (map snd evs) (ending_of te)) as [Ho|[Ho|(k & Ho & _)]];
      rewrite Ho; cbn [fst].
    + destruct te as [|e l|s]; cbn [status_of_end];
        try (unfold says_ok, cli_report; destruct keep; cbn; discriminate).
      intros _. exists evs. split; [reflexivity|].
      assert (Hc : create_ok = true).
      { destruct create_ok; [reflexivity|]. unfold session_io in Ho. cbn in Ho. discriminate. }
      split; [exact Hc|]. cbn [ending_of] in *.
      rewrite (ok_complete CAP limit create_ok (map snd evs) Ho). split; reflexivity.
    + unfold says_ok, cli_report; destruct keep; cbn; discriminate.
    + unfold says_ok, cli_report; destruct keep; cbn; discriminate.
  - apply trace_none in Ht. subst input. cbn. destruct keep; discriminate.
Qed.

(** a fault never turns into a panic: the model panics only where the fault-free run panics *)
Theorem pipeline_panics_only_without_fault keep limit create_ok files input :
  panics (fst (compile_with_faults keep limit create_ok files input)) = true ->
  exists evs s, trace_file files input = Some (evs, TePanic s).
Proof.
  destruct (trace_file files input) as [[evs te]|] eqn:Ht.
  - rewrite (compile_is_session keep limit create_ok files input evs te Ht).
    unfold verdict_of_session, report_of_verdict.
    destruct (session_io_outcomes CAP limit create_ok (map snd evs) (ending_of te)) as [Ho|[Ho|(k & Ho & _)]];
      rewrite Ho; cbn [fst].
    + destruct te as [|e l|s]; cbn [status_of_end].
      * unfold panics, cli_report; cbn; discriminate.
      * unfold panics, cli_report; destruct keep; cbn; discriminate.
      * intros _. exists evs, s. reflexivity.
    + unfold panics, cli_report; destruct keep; cbn; discriminate.
    + unfold panics, cli_report; destruct keep; cbn; discriminate.
  - apply trace_none in Ht. subst input. cbn. destruct keep; discriminate.
Qed.

(** fail-safe for the pipeline: a limit below the complete fault-free output, a creation failure or
    an unreadable input is reported as a failure with a non-zero exit status (and, by the theorem
    above, without a panic unless the program panics by itself) *)
Theorem pipeline_fail_safe keep L create_ok files input evs te :
  trace_file files input = Some (evs, te) ->
  L < len (pcap_ghdr ++ concat (map snd evs)) ->
  says_ok (fst (compile_with_faults keep (Some L) create_ok files input)) = false.
Proof.
  intros Ht HL. destruct (says_ok _) eqn:E; [|reflexivity]. exfalso.
  destruct (pipeline_ok_complete keep (Some L) create_ok files input E) as (evs' & Ht' & Hc & Hf & _).
  rewrite Ht in Ht'. injection Ht' as He1 He2. subst evs' te. rewrite Hc in *. clear Hc.
  rewrite (compile_is_session keep (Some L) true files input evs TeOk Ht) in Hf.
  unfold verdict_of_session, report_of_verdict in Hf.
  pose proof (fail_safe_io CAP L true (map snd evs) HL) as Hne. cbn [ending_of] in Hf.
  destruct (session_io_outcomes CAP (Some L) true (map snd evs) EndFlush) as [Ho|[Ho|(k & Ho & _)]]; [contradiction| |].
  - unfold session_io in Ho. destruct (run_writer CAP (Some L) (map snd evs) EndFlush) as [o w] eqn:Erw.
    cbn [io_out] in Ho. destruct (run_writer_facts _ _ _ _ _ _ Erw) as ([Hd|(k & Hk & _)] & _); congruence.
  - rewrite Ho in Hf. cbn [fst] in Hf.
    destruct (file_is_prefix CAP (Some L) true (map snd evs) EndFlush) with (f := pcap_ghdr ++ concat (map snd evs)) as (_ & Hw).
    + unfold cli_report in Hf. destruct keep; cbn [rp_file] in Hf; [exact Hf|discriminate].
    + unfold Writer.within in Hw. unfold full_file in *. lia.
Qed.

Theorem pipeline_unreadable_input keep limit create_ok files :
  says_ok (fst (compile_with_faults keep limit create_ok files InNoOpen)) = false
  /\ says_ok (fst (compile_with_faults keep limit create_ok files InUnreadable)) = false
  /\ rp_exit (fst (compile_with_faults keep limit create_ok files InNoOpen)) = 1
  /\ rp_exit (fst (compile_with_faults keep limit create_ok files InUnreadable)) = 1.
Proof.
  assert (H : says_ok (fst (compile_with_faults keep limit create_ok files InUnreadable)) = false
              /\ rp_exit (fst (compile_with_faults keep limit create_ok files InUnreadable)) = 1).
  { unfold compile_with_faults, process_file_io. destruct create_ok; cbn [negb].
    - destruct (pw_create CAP limit) as [r0 w0] eqn:Ec.
      destruct (pw_create_facts CAP limit _ _ Ec) as ([-> | ->] & _);
        cbn; unfold says_ok, cli_report; destruct keep; cbn; split; reflexivity.
    - cbn; unfold says_ok, cli_report; destruct keep; cbn; split; reflexivity. }
  destruct H as (A & B).
  repeat split; try assumption; cbn; destruct keep; reflexivity.
Qed.

(** without a fault the report is that of the pipeline of Interp/Cli.v: the trace is [run_src] *)
Theorem trace_is_run_src files src :
  exists evs te, trace_file files (InSrc src) = Some (evs, te) /\
  match run_src files src, te with
  | RunOk pcap _ _, TeOk => pcap = pcap_ghdr ++ concat (map snd evs)
  | RunErr e l pcap, TeErr e' l' => e = e' /\ l = l' /\ pcap = pcap_ghdr ++ concat (map snd evs)
  | RunPanic s, TePanic s' => s = s'
  | _, _ => False
  end.
Proof.
  unfold trace_file, run_src.
  pose proof (trace_is_process_file catalogue class_table module_table (exec {| env_files := files |}) src) as H.
  cbv zeta in H. destruct H as (Hc & Hi).
  set (x := process_input catalogue class_table module_table (exec {| env_files := files |}) (list event) rec_put rec_fin (InSrc src) []) in *.
  assert (Hpcap : forall p (s : list event), map snd s = p_out p -> pcap_of p = pcap_ghdr ++ concat (map snd (rev s))).
  { intros p s Hs. unfold pcap_of. rewrite frev_rev, map_rev. f_equal. f_equal. f_equal. symmetry. exact Hs. }
  destruct x as [p s|e l p s|l p s|site p s]; cbn [cli_of trace_of ic_state ic_prog] in *; try discriminate;
    inversion Hc as [Hpf]; eexists; eexists; (split; [reflexivity|]).
  - apply Hpcap. exact Hi.
  - split; [reflexivity|]. split; [reflexivity|]. apply Hpcap. exact Hi.
  - reflexivity.
Qed.
