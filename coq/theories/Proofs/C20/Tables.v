(** C20: the lemmas over the regenerated tables.  Every one is a closed boolean computation over
    finite tables (gen/Catalogue.v, gen/RegistryCsv.v, Spec/Registry.v), decided by [vm_compute];
    they are re-checked by coqc whenever a table changes, i.e. on every run. *)
From RS Require Import Base.Bytes Base.Outcome Bind.Types Bind.BindSpec Spec.Registry Lib.Docs Lib.DocsStd.
From RSGen Require Import Catalogue RegistryCsv.

(** ** constants against the registries *)
Lemma constants_match_registry : forallb const_matches_registry constant_table = true.
Proof. vm_compute. reflexivity. Qed.

Lemma unregistered_not_stale :
  forallb (unregistered_exists constant_table) unregistered_names = true
  /\ forallb unregistered_is_unregistered unregistered_names = true.
Proof. split; vm_compute; reflexivity. Qed.

Lemma registries_functional : forallb (fun r => registry_functional (snd r)) registries = true.
Proof. vm_compute. reflexivity. Qed.

Lemma constants_one_table : constants_are_module_constants = true.
Proof. vm_compute. reflexivity. Qed.

(** ** the renderer against the running code's own Display output *)
Lemma signatures_rendered : forallb signature_rendered catalogue = true.
Proof. vm_compute. reflexivity. Qed.

Lemma defaults_rendered_all : forallb defaults_rendered catalogue = true.
Proof. vm_compute. reflexivity. Qed.

Lemma constants_rendered : forallb constant_rendered constant_table = true.
Proof. vm_compute. reflexivity. Qed.

Lemma docs_tree_total : is_ok stdlib_docs = true.
Proof. vm_compute. reflexivity. Qed.

Lemma docs_render_catalogue :
  forallb signature_rendered catalogue = true
  /\ forallb defaults_rendered catalogue = true
  /\ forallb constant_rendered constant_table = true
  /\ constants_are_module_constants = true
  /\ is_ok stdlib_docs = true.
Proof.
  split; [exact signatures_rendered |]. split; [exact defaults_rendered_all |].
  split; [exact constants_rendered |]. split; [exact constants_one_table | exact docs_tree_total].
Qed.

(** ** the call theorem on the signatures of the running code *)
From RS Require Import Bind.Binder Spec.DocCall Proofs.C11.CatalogueWf Proofs.C20.Call.

Lemma catalogue_calls_accepted :
  forall f, In f catalogue ->
  forall (V : Type) (type_of : V -> vtype) (of_valdef : valdef -> V),
  (forall d, type_of (of_valdef d) = valdef_type' d) ->
  forall vals, map type_of vals = map snd (mandatory_params (fd_args f)) ->
  argvec V type_of of_valdef f (positional_call V vals)
    = Ok (vals ++ map of_valdef (optional_defaults (fd_args f)), [])
  /\ argvec V type_of of_valdef f (named_call V (map fst (mandatory_params (fd_args f))) vals)
    = Ok (vals ++ map of_valdef (optional_defaults (fd_args f)), []).
Proof.
  intros f Hin V type_of of_valdef Hd vals Ht.
  apply documented_types_accepted; [exact Hd | | exact Ht].
  exact (proj1 (forallb_forall wf_sig catalogue) catalogue_wf f Hin).
Qed.
