(** C20: the documented call is accepted and the optional parameters take their defaults --
    a corollary of C11's [argvec_eq_spec]. *)
From RS Require Import Base.Bytes Base.Outcome Bind.Types Bind.Binder Bind.BindSpec Spec.DocCall.
From Coq Require Import Arith Lia.
From RS Require Import Proofs.C11.Compat Proofs.C11.Split Proofs.C11.Main.
Open Scope list_scope.
Open Scope nat_scope.

Lemma default_self_compatible : forall d, arg_compatible d (valdef_type' d) = true.
Proof. destruct d; reflexivity. Qed.

Lemma compatible_refl : forall t, compatible_with t t = true.
Proof. destruct t; reflexivity. Qed.

(** ** a well-formed parameter list is its mandatory part followed by its optional part *)
Lemma all_optional_filters : forall ps : list param,
  forallb is_optional ps = true -> filter is_mandatory ps = [] /\ filter is_optional ps = ps.
Proof.
  induction ps as [| p r IH]; intros H; [split; reflexivity |].
  cbn [forallb] in H. apply Bool.andb_true_iff in H. destruct H as [H1 H2].
  destruct (IH H2) as [Ha Hb]. unfold is_mandatory in *. cbn [filter]. rewrite H1. cbn [negb].
  split; [exact Ha | rewrite Hb; reflexivity].
Qed.

Lemma mandatory_first_split : forall ps : list param,
  mandatory_first ps = true -> ps = filter is_mandatory ps ++ filter is_optional ps.
Proof.
  induction ps as [| p r IH]; intros H; [reflexivity |].
  cbn [mandatory_first] in H. unfold is_mandatory in *. cbn [filter].
  destruct (is_optional p) eqn:Ep; cbn [negb].
  - destruct (all_optional_filters r H) as [Ha Hb]. unfold is_mandatory in Ha. rewrite Ha, Hb. reflexivity.
  - cbn [app]. rewrite <- (IH H). reflexivity.
Qed.

Lemma mandatory_params_filter : forall ps, mandatory_params ps = mandatory_params (filter is_mandatory ps).
Proof.
  induction ps as [| [x [t | d]] r IH]; [reflexivity | |]; unfold is_mandatory, is_optional in *; cbn [filter snd negb mandatory_params].
  - rewrite IH. reflexivity.
  - exact IH.
Qed.

Lemma optional_defaults_filter : forall ps, optional_defaults ps = optional_defaults (filter is_optional ps).
Proof.
  induction ps as [| [x [t | d]] r IH]; [reflexivity | |]; unfold is_optional in *; cbn [filter snd optional_defaults].
  - exact IH.
  - rewrite IH. reflexivity.
Qed.

Lemma mandatory_params_length : forall ps, length (mandatory_params ps) = count_mandatory ps.
Proof.
  unfold count_mandatory, is_mandatory, is_optional.
  induction ps as [| [x [t | d]] r IH]; [reflexivity | |]; cbn [mandatory_params filter snd negb length]; lia.
Qed.

Lemma filter_filter_mandatory : forall ps : list param, forallb is_mandatory (filter is_mandatory ps) = true.
Proof.
  induction ps as [| p r IH]; [reflexivity |]. cbn [filter]. destruct (is_mandatory p) eqn:E; [| exact IH].
  cbn [forallb]. rewrite E, IH. reflexivity.
Qed.

Lemma filter_filter_optional : forall ps : list param, forallb is_optional (filter is_optional ps) = true.
Proof.
  induction ps as [| p r IH]; [reflexivity |]. cbn [filter]. destruct (is_optional p) eqn:E; [| exact IH].
  cbn [forallb]. rewrite E, IH. reflexivity.
Qed.

Lemma Forall2_len {A B} (R : A -> B -> Prop) : forall l1 l2, Forall2 R l1 l2 -> length l1 = length l2.
Proof. induction 1; cbn [length]; congruence. Qed.

Section Call.
Variable V : Type.
Variable type_of : V -> vtype.
Variable of_valdef : valdef -> V.
(** src/val.rs, impl From<ValDef> for Val *)
Hypothesis Hdfl : forall d, type_of (of_valdef d) = valdef_type' d.

Notation arg := (BindSpec.arg V).
Notation anon := (anon V).
Notation named := (named V).
Notation take_while := (take_while V).
Notation drop_while := (drop_while V).
Notation lead_count := (lead_count V).
Notation named_part := (named_part V).
Notation tail_part := (tail_part V).
Notation slots_from := (slots_from V of_valdef).
Notation all_accept := (all_accept V type_of).

(** what "a value of the documented type" means: its type is accepted for the parameter's type *)
Definition fits (xt : string * vtype) (v : V) : Prop := compatible_with (snd xt) (type_of v) = true.

(** ** optional parameters nobody names take their defaults *)
Lemma slots_defaults : forall f (c : list arg) ps i,
  forallb is_optional ps = true -> lead_count f c <= i ->
  (forall p, In p ps -> lookup V (fst p) (named_part f c) = None) ->
  slots_from f c i ps = Some (map of_valdef (optional_defaults ps)).
Proof.
  intros f c ps. induction ps as [| [x d] r IH]; intros i Ho Hi Hn; [reflexivity |].
  cbn [forallb] in Ho. apply Bool.andb_true_iff in Ho. destruct Ho as [Ho1 Ho2].
  unfold is_optional in Ho1. cbn [snd] in Ho1. destruct d as [t | dfl]; [discriminate Ho1 |].
  cbn [BindSpec.slots_from optional_defaults map]. unfold designated.
  assert (Hlt : Nat.ltb i (lead_count f c) = false) by (apply Nat.ltb_ge; lia). rewrite Hlt.
  rewrite (Hn (x, Optional dfl)) by (left; reflexivity). cbn [snd].
  rewrite IH; [reflexivity | exact Ho2 | lia | intros p Hp; apply Hn; right; exact Hp].
Qed.

Lemma accept_defaults : forall ps,
  forallb is_optional ps = true -> all_accept ps (map of_valdef (optional_defaults ps)) = true.
Proof.
  induction ps as [| [x d] r IH]; intros Ho; [reflexivity |].
  cbn [forallb] in Ho. apply Bool.andb_true_iff in Ho. destruct Ho as [Ho1 Ho2].
  unfold is_optional in Ho1. cbn [snd] in Ho1. destruct d as [t | dfl]; [discriminate Ho1 |].
  cbn [optional_defaults map BindSpec.all_accept snd]. rewrite (IH Ho2), Bool.andb_true_r.
  rewrite <- (decl_compat (Optional dfl)), Hdfl. apply default_self_compatible.
Qed.

Lemma accept_mandatory : forall P vals O rest,
  forallb is_mandatory P = true -> Forall2 fits (mandatory_params P) vals ->
  all_accept (P ++ O) (vals ++ rest) = all_accept O rest.
Proof.
  induction P as [| [x d] r IH]; intros vals O rest Hm HF.
  - cbn [mandatory_params] in HF. inversion HF. reflexivity.
  - cbn [forallb] in Hm. apply Bool.andb_true_iff in Hm. destruct Hm as [Hm1 Hm2].
    unfold is_mandatory, is_optional in Hm1. cbn [snd] in Hm1. destruct d as [t | dfl]; [| discriminate Hm1].
    cbn [mandatory_params] in HF. inversion HF as [| a v l1 l2 Hfit HF' E1 E2]. subst.
    cbn [app BindSpec.all_accept snd param_accepts]. rewrite <- compat_table.
    unfold fits in Hfit. cbn [snd] in Hfit. rewrite Hfit. cbn [andb]. apply IH; assumption.
Qed.

Lemma mandatory_names_fst : forall P : list param,
  forallb is_mandatory P = true -> map fst (mandatory_params P) = map fst P.
Proof.
  induction P as [| [x d] r IH]; intros Hm; [reflexivity |].
  cbn [forallb] in Hm. apply Bool.andb_true_iff in Hm. destruct Hm as [Hm1 Hm2].
  unfold is_mandatory, is_optional in Hm1. cbn [snd] in Hm1. destruct d as [t | dfl]; [| discriminate Hm1].
  cbn [mandatory_params map fst]. rewrite (IH Hm2). reflexivity.
Qed.

(** ** the positional call *)
Lemma take_while_anon_all : forall vals : list V, take_while anon (positional_call V vals) = positional_call V vals.
Proof. induction vals as [| v r IH]; [reflexivity |]. cbn. unfold positional_call in IH. rewrite IH. reflexivity. Qed.

Lemma skipn_all' {A} : forall l : list A, skipn (length l) l = [].
Proof. induction l as [| x r IH]; [reflexivity | exact IH]. Qed.

Lemma map_snd_positional : forall vals : list V, map snd (positional_call V vals) = vals.
Proof. induction vals as [| v r IH]; [reflexivity |]. cbn. unfold positional_call in IH. rewrite IH. reflexivity. Qed.

Theorem positional_call_accepted : forall f, wf_sig f = true ->
  forall vals, Forall2 fits (mandatory_params (fd_args f)) vals ->
  argvec V type_of of_valdef f (positional_call V vals)
  = Ok (vals ++ map of_valdef (optional_defaults (fd_args f)), []).
Proof.
  intros f Hwf vals HF. rewrite (argvec_eq_spec V type_of of_valdef f Hwf).
  set (c := (positional_call V vals : list arg)).
  assert (Hmf : mandatory_first (fd_args f) = true).
  { unfold wf_sig in Hwf. repeat rewrite Bool.andb_true_iff in Hwf. tauto. }
  pose proof (mandatory_first_split _ Hmf) as Hsplit.
  set (P := filter is_mandatory (fd_args f)) in *. set (O := filter is_optional (fd_args f)) in *.
  assert (HP : forallb is_mandatory P = true) by apply filter_filter_mandatory.
  assert (HO : forallb is_optional O = true) by apply filter_filter_optional.
  rewrite mandatory_params_filter in HF. fold P in HF.
  assert (Hlen : length vals = length P).
  { rewrite <- (Forall2_len _ _ _ HF). rewrite <- (map_length fst), (mandatory_names_fst P HP), map_length. reflexivity. }
  assert (Hclen : length c = length vals) by (unfold c, positional_call; apply map_length).
  assert (Hcm : count_mandatory (fd_args f) = length P) by reflexivity.
  assert (Hlead : lead_count f c = length vals).
  { assert (Htw : take_while anon c = c) by apply take_while_anon_all.
    unfold BindSpec.lead_count. rewrite Htw. cbv zeta. unfold BindSpec.arg in *. rewrite Hclen, Hcm, <- Hlen.
    destruct (collects f); [apply Nat.min_id | reflexivity]. }
  assert (Hskip : skipn (lead_count f c) c = []) by (rewrite Hlead, <- Hclen; apply skipn_all').
  assert (Hnp : named_part f c = []) by (unfold BindSpec.named_part; rewrite Hskip; reflexivity).
  assert (Htp : tail_part f c = []) by (unfold BindSpec.tail_part; rewrite Hskip; reflexivity).
  assert (Hargs_len : length (fd_args f) = length P + length O) by (rewrite Hsplit at 1; apply app_length).
  assert (Hshape : shape_ok V f c = true).
  { unfold shape_ok. rewrite Htp, Hnp, Hlead. cbn [forallb BindSpec.names_of distinct].
    rewrite Bool.orb_true_r, !Bool.andb_true_r. apply Nat.leb_le. lia. }
  assert (Hslots : slots_from f c 0 (fd_args f) = Some (vals ++ map of_valdef (optional_defaults (fd_args f)))).
  { rewrite Hsplit at 1. rewrite slots_from_app. cbn [Nat.add].
    rewrite slots_lead by (rewrite Hlead; lia). cbn [skipn].
    assert (Hms : map snd c = vals) by apply map_snd_positional.
    rewrite Hms, <- Hlen, firstn_all.
    rewrite (slots_defaults f c O (length vals) HO) by (try (rewrite Hlead; lia); intros p _; rewrite Hnp; reflexivity).
    rewrite (optional_defaults_filter (fd_args f)). reflexivity. }
  unfold bind_spec. rewrite Hshape, Hslots, Htp. cbn [map forallb].
  rewrite Bool.andb_true_r.
  rewrite (optional_defaults_filter (fd_args f)). fold O. rewrite Hsplit at 1.
  rewrite (accept_mandatory P vals O _ HP HF), (accept_defaults O HO). reflexivity.
Qed.

(** ** every mandatory parameter by name *)
Lemma slots_by_lookup : forall f (c : list arg) ps vs i,
  lead_count f c <= i ->
  Forall2 (fun (p : param) v => lookup V (fst p) (named_part f c) = Some v) ps vs ->
  slots_from f c i ps = Some vs.
Proof.
  intros f c ps vs i Hi HF. revert i Hi. induction HF as [| p v ps' vs' Hl HF' IH]; intros i Hi; [reflexivity |].
  cbn [BindSpec.slots_from]. unfold designated.
  assert (Hlt : Nat.ltb i (lead_count f c) = false) by (apply Nat.ltb_ge; lia). rewrite Hlt, Hl.
  rewrite IH by lia. reflexivity.
Qed.

Lemma lookup_absent : forall names (vals : list V) x,
  ~ In x names -> lookup V x (named_call V names vals) = None.
Proof.
  induction names as [| y r IH]; intros vals x Hn; [reflexivity |].
  destruct vals as [| v vr]; [reflexivity |]. unfold named_call. cbn [combine map fst snd BindSpec.lookup].
  destruct (String.eqb x y) eqn:E.
  - apply String.eqb_eq in E. exfalso. apply Hn. left. symmetry. exact E.
  - apply IH. intros H. apply Hn. right. exact H.
Qed.

Lemma lookup_weaken : forall (l : list arg) (P : list param) vals x w,
  ~ In x (map fst P) ->
  Forall2 (fun (p : param) v => lookup V (fst p) l = Some v) P vals ->
  Forall2 (fun (p : param) v => lookup V (fst p) ((Some x, w) :: l) = Some v) P vals.
Proof.
  intros l P vals x w Hn HF. induction HF as [| p v P' vs' Hl HF' IH]; [constructor |].
  constructor.
  - cbn [BindSpec.lookup]. destruct (String.eqb (fst p) x) eqn:E; [| exact Hl].
    apply String.eqb_eq in E. exfalso. apply Hn. left. exact E.
  - apply IH. intros H. apply Hn. right. exact H.
Qed.

Lemma lookup_named_call : forall (P : list param) (vals : list V),
  NoDup (map fst P) -> length P = length vals ->
  Forall2 (fun (p : param) v => lookup V (fst p) (named_call V (map fst P) vals) = Some v) P vals.
Proof.
  induction P as [| [x d] r IH]; intros vals Hnd Hlen; destruct vals as [| v vr]; try discriminate Hlen; [constructor |].
  cbn [map fst] in *. inversion Hnd as [| y l Hnotin Hnd' E]. subst.
  unfold named_call. cbn [combine map fst snd]. constructor.
  - cbn [BindSpec.lookup fst]. rewrite String.eqb_refl. reflexivity.
  - apply lookup_weaken; [exact Hnotin |]. apply IH; [exact Hnd' |]. cbn [length] in Hlen. lia.
Qed.

Lemma named_call_all_named : forall names (vals : list V), forallb named (named_call V names vals) = true.
Proof.
  induction names as [| y r IH]; intros vals; [reflexivity |]. destruct vals as [| v vr]; [reflexivity |].
  unfold named_call. cbn [combine map forallb]. apply IH.
Qed.

Lemma take_while_all_id : forall (p : arg -> bool) (l : list arg), forallb p l = true -> take_while p l = l.
Proof.
  induction l as [| a r IH]; intros H; [reflexivity |]. cbn [forallb] in H. apply Bool.andb_true_iff in H.
  destruct H as [H1 H2]. cbn [BindSpec.take_while]. rewrite H1, (IH H2). reflexivity.
Qed.

Lemma drop_while_all_nil : forall (p : arg -> bool) (l : list arg), forallb p l = true -> drop_while p l = [].
Proof.
  induction l as [| a r IH]; intros H; [reflexivity |]. cbn [forallb] in H. apply Bool.andb_true_iff in H.
  destruct H as [H1 H2]. cbn [BindSpec.drop_while]. rewrite H1. apply IH. exact H2.
Qed.

Lemma take_while_anon_named : forall l : list arg, forallb named l = true -> take_while anon l = [].
Proof.
  destruct l as [| a r]; intros H; [reflexivity |]. cbn [forallb] in H. apply Bool.andb_true_iff in H.
  destruct H as [H1 _]. unfold BindSpec.named in H1. cbn [BindSpec.take_while].
  destruct (anon a); [discriminate H1 | reflexivity].
Qed.

Lemma names_of_named_call : forall names (vals : list V),
  length names = length vals -> names_of V (named_call V names vals) = names.
Proof.
  induction names as [| y r IH]; intros vals Hl; destruct vals as [| v vr]; try discriminate Hl; [reflexivity |].
  unfold named_call. cbn [combine map fst snd BindSpec.names_of]. f_equal. apply IH. cbn [length] in Hl. lia.
Qed.

Lemma NoDup_app_left {A} : forall a b : list A, NoDup (a ++ b) -> NoDup a.
Proof.
  induction a as [| y r IH]; intros b H; [constructor |]. cbn [app] in H. inversion H as [| z l Hn Hd E]. subst.
  constructor; [intros Hin; apply Hn; apply in_or_app; left; exact Hin | apply (IH b); exact Hd].
Qed.

Lemma NoDup_app_disjoint {A} : forall (a b : list A) x, NoDup (a ++ b) -> In x a -> ~ In x b.
Proof.
  induction a as [| y r IH]; intros b x Hnd Hin; [destruct Hin |].
  cbn [app] in Hnd. inversion Hnd as [| z l Hnotin Hnd' E]. subst. destruct Hin as [-> | Hin].
  - intros Hb. apply Hnotin. apply in_or_app. right. exact Hb.
  - apply IH; assumption.
Qed.

Theorem named_call_accepted : forall f, wf_sig f = true ->
  forall vals, Forall2 fits (mandatory_params (fd_args f)) vals ->
  argvec V type_of of_valdef f (named_call V (map fst (mandatory_params (fd_args f))) vals)
  = Ok (vals ++ map of_valdef (optional_defaults (fd_args f)), []).
Proof.
  intros f Hwf vals HF. rewrite (argvec_eq_spec V type_of of_valdef f Hwf).
  assert (Hmf : mandatory_first (fd_args f) = true).
  { unfold wf_sig in Hwf. repeat rewrite Bool.andb_true_iff in Hwf. tauto. }
  assert (Hnd : NoDup (param_names f)).
  { apply distinct_NoDup. unfold wf_sig in Hwf. repeat rewrite Bool.andb_true_iff in Hwf. tauto. }
  pose proof (mandatory_first_split _ Hmf) as Hsplit.
  set (P := filter is_mandatory (fd_args f)) in *. set (O := filter is_optional (fd_args f)) in *.
  assert (HP : forallb is_mandatory P = true) by apply filter_filter_mandatory.
  assert (HO : forallb is_optional O = true) by apply filter_filter_optional.
  rewrite mandatory_params_filter in HF |- *. fold P in HF |- *.
  rewrite (mandatory_names_fst P HP).
  assert (Hlen : length P = length vals).
  { rewrite <- (Forall2_len _ _ _ HF). rewrite <- (map_length fst), (mandatory_names_fst P HP), map_length. reflexivity. }
  assert (Hnames : param_names f = map fst P ++ map fst O).
  { unfold param_names. rewrite Hsplit at 1. apply map_app. }
  rewrite Hnames in Hnd.
  assert (HndP : NoDup (map fst P)) by (apply (NoDup_app_left _ _ Hnd)).
  set (c := (named_call V (map fst P) vals : list arg)).
  assert (Hall : forallb named c = true) by apply named_call_all_named.
  assert (Hlead : lead_count f c = 0).
  { unfold BindSpec.lead_count. rewrite (take_while_anon_named c Hall). cbv zeta. cbn [length].
    destruct (collects f); reflexivity. }
  assert (Hnp : named_part f c = c).
  { unfold BindSpec.named_part. rewrite Hlead. cbn [skipn]. apply take_while_all_id. exact Hall. }
  assert (Htp : tail_part f c = []).
  { unfold BindSpec.tail_part. rewrite Hlead. cbn [skipn]. apply drop_while_all_nil. exact Hall. }
  assert (Hnames_c : names_of V c = map fst P).
  { apply names_of_named_call. rewrite map_length. exact Hlen. }
  assert (Hshape : shape_ok V f c = true).
  { unfold shape_ok. rewrite Htp, Hnp, Hlead, Hnames_c. cbn [forallb Nat.leb].
    rewrite Bool.orb_true_r. cbn [andb].
    apply Bool.andb_true_iff. split; [| apply distinct_NoDup; exact HndP].
    apply forallb_forall. intros x Hx. unfold name_ok. rewrite Hlead.
    destruct (index_of x (param_names f)) as [i |] eqn:Ei; [reflexivity |].
    exfalso. apply index_of_None in Ei. apply Ei. rewrite Hnames. apply in_or_app. left. exact Hx. }
  assert (Hslots : slots_from f c 0 (fd_args f) = Some (vals ++ map of_valdef (optional_defaults (fd_args f)))).
  { rewrite Hsplit at 1. rewrite slots_from_app. cbn [Nat.add].
    rewrite (slots_by_lookup f c P vals 0) by (try (rewrite Hlead; lia); rewrite Hnp; apply lookup_named_call; assumption).
    rewrite (slots_defaults f c O (length P) HO).
    - rewrite (optional_defaults_filter (fd_args f)). reflexivity.
    - rewrite Hlead. lia.
    - intros p Hp. rewrite Hnp. apply lookup_absent. intros Hin.
      apply (NoDup_app_disjoint _ _ (fst p) Hnd Hin). apply in_map. exact Hp. }
  unfold bind_spec. rewrite Hshape, Hslots, Htp. cbn [map forallb].
  rewrite Bool.andb_true_r.
  rewrite (optional_defaults_filter (fd_args f)). fold O. rewrite Hsplit at 1.
  rewrite (accept_mandatory P vals O _ HP HF), (accept_defaults O HO). reflexivity.
Qed.

End Call.

(** ** the pinned forms *)
Theorem documented_call_accepted :
  forall (V : Type) (type_of : V -> vtype) (of_valdef : valdef -> V),
  (forall d, type_of (of_valdef d) = valdef_type' d) ->
  forall f, wf_sig f = true ->
  forall vals,
  Forall2 (fun (xt : string * vtype) v => compatible_with (snd xt) (type_of v) = true)
          (mandatory_params (fd_args f)) vals ->
  argvec V type_of of_valdef f (positional_call V vals)
    = Ok (vals ++ map of_valdef (optional_defaults (fd_args f)), [])
  /\ argvec V type_of of_valdef f (named_call V (map fst (mandatory_params (fd_args f))) vals)
    = Ok (vals ++ map of_valdef (optional_defaults (fd_args f)), [])
  /\ Forall (fun d => arg_compatible d (valdef_type' d) = true) (optional_defaults (fd_args f)).
Proof.
  intros V type_of of_valdef Hd f Hwf vals HF. split; [| split].
  - apply positional_call_accepted; assumption.
  - apply named_call_accepted; assumption.
  - apply Forall_forall. intros d _. apply default_self_compatible.
Qed.

Lemma exact_types_fit : forall (V : Type) (type_of : V -> vtype) (ps : list (string * vtype)) (vals : list V),
  map type_of vals = map snd ps ->
  Forall2 (fun (xt : string * vtype) v => compatible_with (snd xt) (type_of v) = true) ps vals.
Proof.
  intros V type_of ps. induction ps as [| p r IH]; intros vals H; destruct vals as [| v vr]; try discriminate H; constructor.
  - cbn [map] in H. injection H as H1 H2. rewrite H1. apply compatible_refl.
  - apply IH. cbn [map] in H. injection H as H1 H2. exact H2.
Qed.

Theorem documented_types_accepted :
  forall (V : Type) (type_of : V -> vtype) (of_valdef : valdef -> V),
  (forall d, type_of (of_valdef d) = valdef_type' d) ->
  forall f, wf_sig f = true ->
  forall vals, map type_of vals = map snd (mandatory_params (fd_args f)) ->
  argvec V type_of of_valdef f (positional_call V vals)
    = Ok (vals ++ map of_valdef (optional_defaults (fd_args f)), [])
  /\ argvec V type_of of_valdef f (named_call V (map fst (mandatory_params (fd_args f))) vals)
    = Ok (vals ++ map of_valdef (optional_defaults (fd_args f)), []).
Proof.
  intros V type_of of_valdef Hd f Hwf vals Ht.
  destruct (documented_call_accepted V type_of of_valdef Hd f Hwf vals (exact_types_fit V type_of _ _ Ht)) as [A [B _]].
  split; assumption.
Qed.
