(** Header records of pkt/src/{eth,ipv4,gre,vxlan,erspan2}.rs and their wire serialisation.
    Fields hold host-order values; [*_ser] writes them big-endian, as the [to_be()] stores do. *)
From RS Require Import Base.Bytes Pkt.Csum.

(* ---- Ethernet ---- *)
Definition mac := bytes.   (* 6 bytes *)
Definition mac_of_ip (a : N) : mac := [0; 2] ++ be32 a.          (* impl From<Ipv4Addr> for eth_addr *)
Definition mac_zero : mac := [0;0;0;0;0;0].
Definition mac_bcast : mac := [255;255;255;255;255;255].

Record eth_hdr := { eth_dst : mac; eth_src : mac; eth_proto : N }.
Definition eth_ser (h : eth_hdr) : bytes := eth_dst h ++ eth_src h ++ be16 (eth_proto h).
(** eth_hdr::new(src, dst, proto) -- note argument order *)
Definition eth_new (src dst : mac) (proto : N) : eth_hdr :=
  {| eth_dst := dst; eth_src := src; eth_proto := proto |}.
Definition eth_with_proto (proto : N) : eth_hdr :=
  {| eth_dst := mac_zero; eth_src := mac_zero; eth_proto := proto |}.
Definition eth_dst_from_ip (h : eth_hdr) (a : N) : eth_hdr :=
  {| eth_dst := mac_of_ip a; eth_src := eth_src h; eth_proto := eth_proto h |}.
Definition eth_src_from_ip (h : eth_hdr) (a : N) : eth_hdr :=
  {| eth_dst := eth_dst h; eth_src := mac_of_ip a; eth_proto := eth_proto h |}.
Definition eth_set_broadcast (h : eth_hdr) : eth_hdr :=
  {| eth_dst := mac_bcast; eth_src := eth_src h; eth_proto := eth_proto h |}.

Definition ETH_IPV4 : N := 2048.       (* 0x0800 *)
Definition ETH_ERSPAN_1_2 : N := 35006. (* 0x88be *)

(* ---- IPv4 ---- *)
Record ip_hdr := {
  ip_tot_len : N; ip_id : N; ip_frag : N; ip_ttl : N; ip_proto : N; ip_csum : N;
  ip_src : N; ip_dst : N }.

Definition ip_default : ip_hdr :=
  {| ip_tot_len := 20; ip_id := 0; ip_frag := 0; ip_ttl := 64; ip_proto := 0; ip_csum := 0;
     ip_src := 0; ip_dst := 0 |}.

Definition ip_ser (h : ip_hdr) : bytes :=
  [69; 0] ++ be16 (ip_tot_len h) ++ be16 (ip_id h) ++ be16 (ip_frag h)
  ++ [ip_ttl h; ip_proto h] ++ be16 (ip_csum h) ++ be32 (ip_src h) ++ be32 (ip_dst h).

Definition ip_set_tot_len h v := {| ip_tot_len := v; ip_id := ip_id h; ip_frag := ip_frag h; ip_ttl := ip_ttl h; ip_proto := ip_proto h; ip_csum := ip_csum h; ip_src := ip_src h; ip_dst := ip_dst h |}.
Definition ip_set_id h v := {| ip_tot_len := ip_tot_len h; ip_id := v; ip_frag := ip_frag h; ip_ttl := ip_ttl h; ip_proto := ip_proto h; ip_csum := ip_csum h; ip_src := ip_src h; ip_dst := ip_dst h |}.
Definition ip_set_frag h v := {| ip_tot_len := ip_tot_len h; ip_id := ip_id h; ip_frag := v; ip_ttl := ip_ttl h; ip_proto := ip_proto h; ip_csum := ip_csum h; ip_src := ip_src h; ip_dst := ip_dst h |}.
Definition ip_set_ttl h v := {| ip_tot_len := ip_tot_len h; ip_id := ip_id h; ip_frag := ip_frag h; ip_ttl := v; ip_proto := ip_proto h; ip_csum := ip_csum h; ip_src := ip_src h; ip_dst := ip_dst h |}.
Definition ip_set_protocol h v := {| ip_tot_len := ip_tot_len h; ip_id := ip_id h; ip_frag := ip_frag h; ip_ttl := ip_ttl h; ip_proto := v; ip_csum := ip_csum h; ip_src := ip_src h; ip_dst := ip_dst h |}.
Definition ip_set_csum h v := {| ip_tot_len := ip_tot_len h; ip_id := ip_id h; ip_frag := ip_frag h; ip_ttl := ip_ttl h; ip_proto := ip_proto h; ip_csum := v; ip_src := ip_src h; ip_dst := ip_dst h |}.
Definition ip_set_saddr h v := {| ip_tot_len := ip_tot_len h; ip_id := ip_id h; ip_frag := ip_frag h; ip_ttl := ip_ttl h; ip_proto := ip_proto h; ip_csum := ip_csum h; ip_src := v; ip_dst := ip_dst h |}.
Definition ip_set_daddr h v := {| ip_tot_len := ip_tot_len h; ip_id := ip_id h; ip_frag := ip_frag h; ip_ttl := ip_ttl h; ip_proto := ip_proto h; ip_csum := ip_csum h; ip_src := ip_src h; ip_dst := v |}.

Definition IP_EVIL : N := 32768.
Definition IP_DF : N := 16384.
Definition IP_MF : N := 8192.

(** set_frag_off: keeps the three flag bits, ORs in the requested value (not masked) *)
Definition ip_set_frag_off h (off : N) := ip_set_frag h (N.lor off (N.land (ip_frag h) 57344)).
Definition set_bit16 (w bit : N) (on : bool) : N :=
  if on then N.lor w bit else N.land w (65535 - bit).
Definition ip_set_mf h (b : bool) := ip_set_frag h (set_bit16 (ip_frag h) IP_MF b).
Definition ip_set_df h (b : bool) := ip_set_frag h (set_bit16 (ip_frag h) IP_DF b).
Definition ip_set_evil h (b : bool) := ip_set_frag h (set_bit16 (ip_frag h) IP_EVIL b).

Definition ip_calc_csum h := ip_set_csum h (ip_checksum (ip_ser (ip_set_csum h 0))).

Definition PROTO_ICMP : N := 1.
Definition PROTO_TCP : N := 6.
Definition PROTO_UDP : N := 17.
Definition PROTO_GRE : N := 47.

(** ip_pseudo_hdr bytes: src, dst, 0, proto, len *)
Definition pseudo_ser (src dst proto l : N) : bytes := be32 src ++ be32 dst ++ [0; proto] ++ be16 l.

(* ---- TCP ---- *)
Record tcp_hdr := {
  th_sport : N; th_dport : N; th_seq : N; th_ack : N; th_flags : N; th_win : N; th_csum : N; th_urp : N }.
Definition tcp_ser (h : tcp_hdr) : bytes :=
  be16 (th_sport h) ++ be16 (th_dport h) ++ be32 (th_seq h) ++ be32 (th_ack h)
  ++ [80; th_flags h] ++ be16 (th_win h) ++ be16 (th_csum h) ++ be16 (th_urp h).
Definition tcp_new (sport dport : N) : tcp_hdr :=
  {| th_sport := sport; th_dport := dport; th_seq := 0; th_ack := 0; th_flags := 0; th_win := 65535;
     th_csum := 0; th_urp := 0 |}.
Definition th_set_seq h v := {| th_sport := th_sport h; th_dport := th_dport h; th_seq := v; th_ack := th_ack h; th_flags := th_flags h; th_win := th_win h; th_csum := th_csum h; th_urp := th_urp h |}.
Definition th_set_flags h v := {| th_sport := th_sport h; th_dport := th_dport h; th_seq := th_seq h; th_ack := th_ack h; th_flags := v; th_win := th_win h; th_csum := th_csum h; th_urp := th_urp h |}.
Definition th_set_ack h v := {| th_sport := th_sport h; th_dport := th_dport h; th_seq := th_seq h; th_ack := v; th_flags := N.lor (th_flags h) 16; th_win := th_win h; th_csum := th_csum h; th_urp := th_urp h |}.
Definition th_set_csum h v := {| th_sport := th_sport h; th_dport := th_dport h; th_seq := th_seq h; th_ack := th_ack h; th_flags := th_flags h; th_win := th_win h; th_csum := v; th_urp := th_urp h |}.
Definition TCP_FIN : N := 1.
Definition TCP_SYN : N := 2.
Definition TCP_RST : N := 4.
Definition TCP_PSH : N := 8.
Definition TCP_ACK : N := 16.
Definition th_or_flag h f := th_set_flags h (N.lor (th_flags h) f).

(* ---- UDP ---- *)
Record udp_hdr := { uh_sport : N; uh_dport : N; uh_len : N; uh_csum : N }.
Definition udp_ser (h : udp_hdr) : bytes :=
  be16 (uh_sport h) ++ be16 (uh_dport h) ++ be16 (uh_len h) ++ be16 (uh_csum h).
Definition udp_default : udp_hdr := {| uh_sport := 0; uh_dport := 0; uh_len := 8; uh_csum := 0 |}.

(* ---- ICMP echo ---- *)
Record icmp_hdr := { ic_typ : N; ic_code : N; ic_csum : N; ic_id : N; ic_seq : N }.
Definition icmp_ser (h : icmp_hdr) : bytes :=
  [ic_typ h; ic_code h] ++ be16 (ic_csum h) ++ be16 (ic_id h) ++ be16 (ic_seq h).
Definition ICMP_ECHO : N := 8.
Definition ICMP_ECHOREPLY : N := 0.

(* ---- GRE ---- *)
(** GreFlags -> u16 exactly as [impl From<GreFlags> for u16]; only [s] is ever set by the
    library (recur, v, c, r, k, sr, a stay at their defaults), the general formula is kept. *)
Record gre_flags := { gf_c : bool; gf_r : bool; gf_k : bool; gf_s : bool; gf_sr : bool; gf_a : bool;
                      gf_recur : N; gf_v : N }.
Definition gre_flags_default : gre_flags :=
  {| gf_c := false; gf_r := false; gf_k := false; gf_s := false; gf_sr := false; gf_a := false;
     gf_recur := 0; gf_v := 0 |}.
Definition gre_flags_seq (f : gre_flags) (s : bool) : gre_flags :=
  {| gf_c := gf_c f; gf_r := gf_r f; gf_k := gf_k f; gf_s := s; gf_sr := gf_sr f; gf_a := gf_a f;
     gf_recur := gf_recur f; gf_v := gf_v f |}.
Definition bit (b : bool) (v : N) : N := if b then v else 0.
Definition gre_flags_word (f : gre_flags) : N :=
  N.lor (N.land (gf_v f) 7)
  (N.lor (N.shiftl (N.land (gf_recur f) 7) 8)
  (N.lor (N.shiftl (N.land (gf_recur f) 15) 3)
  (N.lor (bit (gf_c f) 32768) (N.lor (bit (gf_r f) 16384) (N.lor (bit (gf_k f) 8192)
  (N.lor (bit (gf_s f) 4096) (N.lor (bit (gf_sr f) 2048) (bit (gf_a f) 128)))))))).
Definition gre_ser (flags proto : N) : bytes := be16 flags ++ be16 proto.

(* ---- VXLAN ---- *)
(** vxlan_hdr::with_vni(vni): flags = I (8), reserved 0, vni field = (vni << 8) as u32, big-endian *)
Definition vxlan_ser (vni : N) : bytes := [8; 0; 0; 0] ++ be32 ((vni * 256) mod 4294967296).

(* ---- ERSPAN II ---- *)
(** Erspan2::default().session_id(0).port_index(ix): ver 1, vlan 0, cos 0, en TagPreserved(3), t 0 *)
Definition erspan2_flags_word (sess_id : N) : N :=
  N.lor (N.land sess_id 1023)
  (N.lor (N.land (N.shiftl 3 11) 6144) (N.land (N.shiftl 1 28) 4026531840)).
Definition erspan2_index_word (ix : N) : N := N.land ix 1048575.
Definition erspan2_ser (sess_id ix : N) : bytes :=
  be32 (erspan2_flags_word sess_id) ++ be32 (erspan2_index_word ix).
