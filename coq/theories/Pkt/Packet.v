(** pkt/src/packet.rs: a packet is a buffer with [headroom] bytes in front of the frame.
    Every packet built by the library has the default 16 bytes of headroom. *)
From RS Require Import Base.Bytes Base.Outcome.

Open Scope N_scope.

Record packet := { pk_hr : bytes; pk_body : bytes }.

Definition DEFAULT_HEADROOM : nat := 16.
Definition pkt_of_body (body : bytes) : packet := {| pk_hr := zeros DEFAULT_HEADROOM; pk_body := body |}.

Definition pkt_len (p : packet) : N := len (pk_body p).
(** Packet::as_slice().get(): the frame bytes *)
Definition pkt_frame (p : packet) : bytes := pk_body p.
(** Packet::to_vec *)
Definition pkt_to_vec (p : packet) : bytes := pk_body p.
(** Packet::bit_time: (len + 24) * 8 as u64 *)
Definition pkt_bit_time (p : packet) : N := (pkt_len p + 24) * 8.
