(** pkt/src/ipv4.rs: ip_csum_partial / ip_csum_fold / ip_csum.
    ip_csum_partial sums the big-endian 16-bit words (odd trailing byte padded) in a u64 and folds the
    carries back in until the value fits 16 bits.  The u64 cannot overflow below 2^48 words (2^49
    bytes, more than any address space holds); beyond that the model wraps like a release build, so
    that the result is below 2^16 for every list, as it is in the code. *)
From RS Require Import Base.Bytes.

Fixpoint csum_words (l : bytes) : N :=
  match l with
  | a :: b :: r => (a * 256 + b) + csum_words r
  | [a] => a * 256
  | [] => 0
  end.

(** while (sum >> 16) != 0 { sum = (sum & 0xffff) + (sum >> 16) } *)
Fixpoint oc_reduce (fuel : nat) (s : N) : N :=
  match fuel with
  | O => s
  | S f => if s <? 65536 then s else oc_reduce f (s mod 65536 + s / 65536)
  end.

Definition csum_partial (l : bytes) : N := oc_reduce 8 (csum_words l mod 18446744073709551616).

Definition csum_fold (running : N) : N :=
  let s1 := (running mod 65536) + (running / 65536) in
  let s2 := (s1 mod 65536) + (s1 / 65536) in
  65535 - (s2 mod 65536).

Definition ip_checksum (l : bytes) : N := csum_fold (csum_partial l).
