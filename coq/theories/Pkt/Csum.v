(** pkt/src/ipv4.rs: ip_csum_partial / ip_csum_fold / ip_csum.
    The accumulator is modelled as an unbounded N; the u32 accumulator of the code cannot
    overflow for buffers below 128 KiB (each word adds < 2^16), the theorems carry the bound. *)
From RS Require Import Base.Bytes.

Fixpoint csum_partial (l : bytes) : N :=
  match l with
  | a :: b :: r => (a * 256 + b) + csum_partial r
  | [a] => a * 256
  | [] => 0
  end.

Definition csum_fold (running : N) : N :=
  let s1 := (running mod 65536) + (running / 65536) in
  let s2 := (s1 mod 65536) + (s1 / 65536) in
  65535 - (s2 mod 65536).

Definition ip_checksum (l : bytes) : N := csum_fold (csum_partial l).
