(** pkt/src/pcap.rs: file header and record writer (host byte order = little endian). *)
From RS Require Import Base.Bytes Base.Outcome Pkt.Packet.

Open Scope N_scope.

Definition pcap_ghdr : bytes :=
  le32 2712812621 (* 0xa1b23c4d *) ++ le16 2 ++ le16 4 ++ le32 0 ++ le32 0 ++ le32 0 ++ le32 1.

Definition NS_PER_SEC : N := 1000000000.
Definition ts_to_secs (t : N) : N := wrap32 (t / NS_PER_SEC).
Definition ts_to_nsecs (t : N) : N := wrap32 (t mod NS_PER_SEC).

Definition pcap_rec_hdr (time : N) (l : N) : bytes :=
  le32 (ts_to_secs time) ++ le32 (ts_to_nsecs time) ++ le32 (wrap32 l) ++ le32 (wrap32 l).

(** write_packet: lower_headroom_for(hdr) needs 16 bytes of headroom; the bytes written are
    header ++ frame; the packet keeps the header bytes in its headroom afterwards. *)
Definition write_packet (time : N) (p : packet) : outcome (bytes * packet) :=
  if Nat.ltb (length (pk_hr p)) 16 then Panic "packet.rs lower_headroom: sz <= headroom"
  else
    let hdr := pcap_rec_hdr time (pkt_len p) in
    let hr' := firstn (length (pk_hr p) - 16) (pk_hr p) ++ hdr in
    Ok (hdr ++ pk_body p, {| pk_hr := hr'; pk_body := pk_body p |}).
