(** src/lex.rs: the regular expression LEX_RE (one recogniser per alternative, in source order,
    each with the leftmost-first extent the regex crate gives it) and Lexer::line (scan loop,
    token locations, string-literal carry-over, error position).

    The regex engine is an external function of the implementation; what is modelled here is its
    documented semantics for this one pattern: `^(?:A1|...|A21)` applied to the slice
    `&line[pos..]` tries the alternatives in order and takes the first that matches, with that
    alternative's own preferred (greedy, backtracking-order) match.  Nothing follows the
    alternation, so no alternative is ever abandoned because of what comes after it.

    No proofs in this file. *)
From RS Require Import Base.Bytes Base.Outcome Base.Utf8 Lex.Tokens Lex.LexClass.
Open Scope N_scope.

(** ** byte classes written in the pattern *)
Definition in_range (lo hi c : N) : bool := (lo <=? c) && (c <=? hi).
Definition re_digit (c : N) : bool := in_range 48 57 c.                                    (* [0-9] *)
Definition re_hexdigit (c : N) : bool :=                                                   (* [0-9a-fA-F] *)
  in_range 48 57 c || in_range 97 102 c || in_range 65 70 c.
Definition re_ident_start (c : N) : bool :=                                                (* [a-zA-Z_] *)
  in_range 97 122 c || in_range 65 90 c || (c =? 95).
Definition re_ident_cont (c : N) : bool :=                                                 (* [a-zA-Z0-9_] *)
  in_range 97 122 c || in_range 65 90 c || in_range 48 57 c || (c =? 95).
Definition re_not_nl (c : N) : bool := negb (c =? 10).                                     (* [^\n] *)
Definition re_not_quote (c : N) : bool := negb (c =? 34).                                  (* [^dq], dq = the double quote *)

(** greedy [C*] for a class of bytes: the number of leading bytes in the class.  For the two negated
    classes [^\n] and [^dq] the regex consumes whole characters; on valid UTF-8 that is the same
    bytes, because the excluded character is ASCII and never occurs inside a multi-byte sequence. *)
Fixpoint star (p : N -> bool) (s : bytes) : nat :=
  match s with
  | c :: r => if p c then S (star p r) else O
  | [] => O
  end.

(** a literal: [Some (length w)] when [s] starts with [w] *)
Fixpoint lit (w s : bytes) : option nat :=
  match w with
  | [] => Some O
  | c :: w' => match s with
               | d :: s' => if c =? d then option_map S (lit w' s') else None
               | [] => None
               end
  end.

Fixpoint first_some {A B} (f : A -> option B) (l : list A) : option B :=
  match l with
  | [] => None
  | x :: r => match f x with Some y => Some y | None => first_some f r end
  end.

(** ** the alternatives *)

(** (?P<whitespace>[^\S\n][^\S\n]* ): Unicode White_Space characters other than \n, greedy *)
Fixpoint re_ws_star (fuel : nat) (s : bytes) : nat :=
  match fuel with
  | O => O
  | S f => match utf8_decode s with
           | Some (cp, n) =>
             if is_whitespace cp && negb (cp =? 10) then (n + re_ws_star f (skipn n s))%nat else O
           | None => O
           end
  end.
Definition re_whitespace (s : bytes) : option nat :=
  match re_ws_star (length s) s with O => None | n => Some n end.

(** (?P<hashcomment>#[^\n]* ) *)
Definition re_hashcomment (s : bytes) : option nat :=
  match s with
  | c :: r => if c =? 35 then Some (S (star re_not_nl r)) else None
  | [] => None
  end.

(** (?P<cppcomment>//[^\n]* ) *)
Definition re_cppcomment (s : bytes) : option nat :=
  match s with
  | c :: d :: r => if (c =? 47) && (d =? 47) then Some (S (S (star re_not_nl r))) else None
  | _ => None
  end.

(** the punctuation groups and (?P<newline>\n) are literals *)
Definition re_lit (w : string) (s : bytes) : option nat := lit (bytes_of_string w) s.

Section WordBoundary.
  (** The regex crate's \b is Unicode-aware: a word character is \w = Alphabetic, Mark,
      Decimal_Number, Connector_Punctuation, Join_Control.  On ASCII that is [0-9A-Za-z_]; the
      non-ASCII part of the table is a parameter.  Proofs/C10 shows ([wordchar_irrelevant]) that
      the result of Lexer::line is the same for every choice that is false on White_Space
      characters (no White_Space character is a word character). *)
  Variable nonascii_word : N -> bool.

  Definition is_word_char (cp : N) : bool :=
    if cp <? 128 then re_ident_cont cp else nonascii_word cp.

  (** \b directly after a keyword (whose last character is a word character): holds at the end of
      the text and before a non-word character.  The \b in front of the keyword is at offset 0 of
      the slice, between start-of-text and a letter, and always holds. *)
  Definition word_boundary_after_word (s : bytes) : bool :=
    match utf8_decode s with
    | Some (cp, _) => negb (is_word_char cp)
    | None => true
    end.

  (** \bimport\b, \blet\b *)
  Definition re_keyword (w : string) (s : bytes) : option nat :=
    match lit (bytes_of_string w) s with
    | Some n => if word_boundary_after_word (skipn n s) then Some n else None
    | None => None
    end.

  (** \b(?:true|false)\b : the inner alternation in order, each followed by the \b *)
  Definition re_boolean (s : bytes) : option nat :=
    first_some (fun w => re_keyword w s) ["true"%string; "false"%string].

  (** (?P<identifier>[a-zA-Z_][a-zA-Z0-9_]* ) *)
  Definition re_identifier (s : bytes) : option nat :=
    match s with
    | c :: r => if re_ident_start c then Some (S (star re_ident_cont r)) else None
    | [] => None
    end.

  (** One octet (?:25[0-5]|2[0-4][0-9]|[01]?[0-9][0-9]?): the lengths of all its matches at the head
      of [s], in the order a backtracking matcher produces them (alternatives left to right, greedy
      `?` first with, then without, its operand). *)
  Definition octet_alt1 (s : bytes) : list nat :=
    match s with
    | a :: b :: c :: _ => if (a =? 50) && (b =? 53) && in_range 48 53 c then [3%nat] else []
    | _ => []
    end.
  Definition octet_alt2 (s : bytes) : list nat :=
    match s with
    | a :: b :: c :: _ => if (a =? 50) && in_range 48 52 b && re_digit c then [3%nat] else []
    | _ => []
    end.
  (** [0-9][0-9]? *)
  Definition digit_optdigit (s : bytes) : list nat :=
    match s with
    | a :: r =>
      if re_digit a then
        (match r with b :: _ => if re_digit b then [2%nat] else [] | [] => [] end) ++ [1%nat]
      else []
    | [] => []
    end.
  (** [01]?[0-9][0-9]? *)
  Definition octet_alt3 (s : bytes) : list nat :=
    (match s with a :: r => if in_range 48 49 a then map S (digit_optdigit r) else [] | [] => [] end)
    ++ digit_optdigit s.
  Definition octet_cands (s : bytes) : list nat := octet_alt1 s ++ octet_alt2 s ++ octet_alt3 s.

  (** (?:octet\.){k} octet, by backtracking: an octet candidate is kept only if the rest of the
      pattern matches after it. *)
  Fixpoint re_ipv4_from (k : nat) (s : bytes) : option nat :=
    match k with
    | O => match octet_cands s with n :: _ => Some n | [] => None end
    | S k' =>
      first_some (fun n => match skipn n s with
                           | c :: r => if c =? 46
                                       then option_map (fun m => (n + 1 + m)%nat) (re_ipv4_from k' r)
                                       else None
                           | [] => None
                           end) (octet_cands s)
    end.
  Definition re_ipv4 (s : bytes) : option nat := re_ipv4_from 3 s.

  (** (?P<string_literal>dq(?:[^dq])*dq), dq = the double quote *)
  Definition re_string (s : bytes) : option nat :=
    match s with
    | c :: r =>
      if c =? 34 then
        let n := star re_not_quote r in
        match skipn n r with
        | q :: _ => if q =? 34 then Some (S (S n)) else None
        | [] => None
        end
      else None
    | [] => None
    end.

  (** (?P<hex_integer_literal>0x[0-9a-fA-F][0-9a-fA-F]* ) *)
  Definition re_hex (s : bytes) : option nat :=
    match s with
    | a :: b :: r =>
      if (a =? 48) && (b =? 120) then
        match star re_hexdigit r with O => None | n => Some (S (S n)) end
      else None
    | _ => None
    end.

  (** (?P<integer_literal>[-]?[0-9][0-9]* ): greedy `?`, first with the sign, then without *)
  Definition re_digits1 (s : bytes) : option nat :=
    match star re_digit s with O => None | n => Some n end.
  Definition re_integer (s : bytes) : option nat :=
    match (match s with c :: r => if c =? 45 then option_map S (re_digits1 r) else None | [] => None end) with
    | Some n => Some n
    | None => re_digits1 s
    end.

  (** LEX_RE: the capture groups in source order (group index = TokType discriminant) *)
  Definition lex_re : list (lexclass * (bytes -> option nat)) :=
    [ (KWhitespace, re_whitespace);
      (KHashComment, re_hashcomment);
      (KCppComment, re_cppcomment);
      (KNewLine, lit [10]);
      (KTok TLParen, re_lit "(");
      (KTok TRParen, re_lit ")");
      (KTok TDot, re_lit ".");
      (KTok TDoubleColon, re_lit "::");
      (KTok TColon, re_lit ":");
      (KTok TSemiColon, re_lit ";");
      (KTok TEquals, re_lit "=");
      (KTok TComma, re_lit ",");
      (KTok TSlash, re_lit "/");
      (KTok TImport, re_keyword "import");
      (KTok TLet, re_keyword "let");
      (KTok TBoolLit, re_boolean);
      (KTok TIdent, re_identifier);
      (KTok TIPv4Lit, re_ipv4);
      (KTok TStringLit, re_string);
      (KTok THexLit, re_hex);
      (KTok TIntLit, re_integer) ].

  (** captures_read + TokType::from_caps: the first group that took part in the match, and where
      it ends.  Every alternative consumes at least one byte, so from_caps' `match_end > 0` test and
      the `assert!(match_end == m.end())` hold by construction (only one group can be set). *)
  Fixpoint first_group (tbl : list (lexclass * (bytes -> option nat))) (s : bytes)
    : option (lexclass * nat) :=
    match tbl with
    | [] => None
    | (k, re) :: t => match re s with
                      | Some n => Some (k, n)
                      | None => first_group t s
                      end
    end.
  Definition match_rules (s : bytes) : option (lexclass * nat) := first_group lex_re s.

  (** ** Lexer::line *)

  (** Loc::new(line, col): both `as u32` *)
  Definition loc_new (lno col : N) : loc := (wrap32 lno, wrap32 col).

  (** str::is_char_boundary for the offset at which [s] starts (s = the rest of the line) *)
  Definition is_char_boundary (s : bytes) : bool :=
    match s with [] => true | b :: _ => negb (is_cont b) end.

  (** TokType::get_val for the non-string kinds (string literals take the other branch of the loop) *)
  Definition get_val (t : toktype) (v : bytes) : option bytes :=
    match t with
    | TIdent | THexLit | TIntLit | TBoolLit | TIPv4Lit => Some v
    | TStringLit => Some (firstn (length v - 2) (skipn 1 v))
    | _ => None
    end.

  (** The `while pos < line.len()` loop.  [s] is `&line[pos..]`, [ret] the token vector,
      [strs] `string_literals`.  Result: the final [pos] (= the error offset on failure) and the
      outcome.  Slicing a `str` off a character boundary panics. *)
  Fixpoint scan_loop (fuel : nat) (lno : N) (s : bytes) (pos : N) (ret : list token) (strs : list bytes)
    : N * outcome (list token * list bytes) :=
    match s with
    | [] => (pos, Ok (ret, strs))
    | _ :: _ =>
      match fuel with
      | O => (pos, OutOfFuel)
      | S fuel' =>
        match match_rules s with
        | None => (pos, Err ELex)                                   (* self.throw(pos) *)
        | Some (k, n) =>
          let tok_val := firstn n s in
          let s' := skipn n s in
          if negb (is_char_boundary s') then (pos, Panic "lex.rs: &s[..m.end()] off a char boundary")
          else
            let loc := loc_new lno (pos + 1) in
            let pos' := pos + N.of_nat n in
            if skipped k then scan_loop fuel' lno s' pos' ret strs
            else match k with
                 | KTok TStringLit =>
                   if Nat.ltb n 2 then (pos, Panic "lex.rs: &tok_val[1..m.end() - 1]")
                   else scan_loop fuel' lno s' pos' ret (strs ++ [firstn (n - 2) (skipn 1 tok_val)])
                 | KTok t =>
                   let ret1 := match strs with
                               | [] => ret
                               | _ => ret ++ [{| tk_type := TStringLit; tk_loc := loc;
                                                 tk_val := Some (concat strs) |}]
                               end in
                   scan_loop fuel' lno s' pos'
                             (ret1 ++ [{| tk_type := t; tk_loc := loc; tk_val := get_val t tok_val |}]) []
                 | _ => scan_loop fuel' lno s' pos' ret strs
                 end
        end
      end
    end.

  Record lexer := { lx_loc : loc; lx_pending : option bytes }.

  (** Lexer::default() *)
  Definition lexer_init : lexer := {| lx_loc := nil_loc; lx_pending := None |}.

  (** Lexer::line.  On success the new lexer has loc = Loc::new(lno, line.len() + 1) and the
      concatenation of what is still pending; on a lex error loc = Loc::new(lno, pos + 1) (throw) and
      nothing pending (it was `take`n). *)
  Definition lex_line_gen (lx : lexer) (lno : N) (line : bytes) : lexer * outcome (list token) :=
    let strs0 := match lx_pending lx with Some s => [s] | None => [] end in
    match scan_loop (S (length line)) lno line 0 [] strs0 with
    | (pos, Ok (ret, strs)) =>
      ({| lx_loc := loc_new lno (pos + 1);
          lx_pending := match strs with [] => None | _ => Some (concat strs) end |}, Ok ret)
    | (pos, Err e) => ({| lx_loc := loc_new lno (pos + 1); lx_pending := None |}, Err e)
    | (pos, Panic site) => ({| lx_loc := loc_new lno 1; lx_pending := None |}, Panic site)
    | (pos, OutOfFuel) => ({| lx_loc := loc_new lno 1; lx_pending := None |}, OutOfFuel)
    end.
End WordBoundary.

(** The non-ASCII part of \w used for running the model: every non-ASCII character that is not
    White_Space (a superset of the real table; by [wordchar_irrelevant] any admissible choice gives
    the same Lexer::line). *)
Definition default_nonascii_word (cp : N) : bool := negb (is_whitespace cp).

Definition lex_line : lexer -> N -> bytes -> lexer * outcome (list token) :=
  lex_line_gen default_nonascii_word.

(** A whole text, line by line, as cli.rs process_file drives the lexer: lines are numbered from
    [lno], the tokens of all lines are concatenated, the first error stops the run. *)
Fixpoint lex_lines_gen (w : N -> bool) (lx : lexer) (lno : N) (lines : list bytes)
  : lexer * outcome (list token) :=
  match lines with
  | [] => (lx, Ok [])
  | l :: r =>
    match lex_line_gen w lx lno l with
    | (lx1, Ok toks) =>
      match lex_lines_gen w lx1 (lno + 1) r with
      | (lx2, Ok toks') => (lx2, Ok (toks ++ toks'))
      | other => other
      end
    | other => other
    end
  end.
Definition lex_lines := lex_lines_gen default_nonascii_word.
