(** src/lex.rs: token kinds and tokens, shared by the lexer and parser models.
    Only the 17 kinds that reach the parser plus Eof; the four skipped kinds
    (whitespace, the two comment forms, newline) never become tokens. *)
From RS Require Import Base.Bytes.
From Coq Require Import Ascii.
Open Scope N_scope.

Inductive toktype :=
| TEof
| TLParen | TRParen | TDot | TDoubleColon | TColon | TSemiColon | TEquals | TComma | TSlash
| TImport | TLet | TBoolLit | TIdent | TIPv4Lit | TStringLit | THexLit | TIntLit.

Definition toktype_eqb (a b : toktype) : bool :=
  match a, b with
  | TEof, TEof | TLParen, TLParen | TRParen, TRParen | TDot, TDot | TDoubleColon, TDoubleColon
  | TColon, TColon | TSemiColon, TSemiColon | TEquals, TEquals | TComma, TComma | TSlash, TSlash
  | TImport, TImport | TLet, TLet | TBoolLit, TBoolLit | TIdent, TIdent | TIPv4Lit, TIPv4Lit
  | TStringLit, TStringLit | THexLit, THexLit | TIntLit, TIntLit => true
  | _, _ => false
  end.

Definition all_toktypes : list toktype :=
  [TEof; TLParen; TRParen; TDot; TDoubleColon; TColon; TSemiColon; TEquals; TComma; TSlash;
   TImport; TLet; TBoolLit; TIdent; TIPv4Lit; TStringLit; THexLit; TIntLit].

(** Loc: (line, column), both 1-based; (0,0) is Loc::nil() *)
Definition loc := (N * N)%type.
Definition nil_loc : loc := (0, 0).

(** Token: kind, location, and the text TokType::get_val keeps (identifiers, literals; a string
    literal's text is the concatenation of the adjacent literals without their quotes) *)
Record token := { tk_type : toktype; tk_loc : loc; tk_val : option bytes }.

Definition eof_token : token := {| tk_type := TEof; tk_loc := nil_loc; tk_val := None |}.

(** identifiers are ASCII: bytes <-> Coq strings *)
Fixpoint string_of_bytes (b : bytes) : string :=
  match b with
  | [] => EmptyString
  | c :: r => String (ascii_of_N c) (string_of_bytes r)
  end.
Fixpoint bytes_of_string (s : string) : bytes :=
  match s with
  | EmptyString => []
  | String a r => N_of_ascii a :: bytes_of_string r
  end.
