(** Val::from_token (src/val.rs) and impl FromStr for Buf (src/str.rs), with hand-written models
    of the std parsers they call: u64::from_str, u64::from_str_radix(_, 16), Ipv4Addr::from_str,
    bool::from_str.  The token texts come from the lexer, so only the shapes the lexical rules
    admit matter, but the functions are total on all byte strings. *)
From RS Require Import Base.Bytes Base.Outcome Base.Utf8 Lex.Tokens Interp.Val.
Open Scope N_scope.

Definition is_digit (c : N) : bool := (48 <=? c) && (c <=? 57).
Definition hex_value (c : N) : option N :=
  if (48 <=? c) && (c <=? 57) then Some (c - 48)
  else if (97 <=? c) && (c <=? 102) then Some (c - 87)
  else if (65 <=? c) && (c <=? 70) then Some (c - 55)
  else None.

(** digits in a radix, most significant first, with overflow check at 2^64 *)
Fixpoint parse_digits (radix : N) (digit : N -> option N) (l : bytes) (acc : N) : option N :=
  match l with
  | [] => Some acc
  | c :: r => match digit c with
              | None => None
              | Some d => let acc' := acc * radix + d in
                          if acc' <? two64 then parse_digits radix digit r acc' else None
              end
  end.

Definition dec_value (c : N) : option N := if is_digit c then Some (c - 48) else None.

(** u64::from_str: optional '+', at least one digit, no overflow.  ('-' is an invalid digit.) *)
Definition parse_u64_dec (l : bytes) : option N :=
  let body := match l with 43 :: r => r | _ => l end in
  match body with
  | [] => None
  | _ => parse_digits 10 dec_value body 0
  end.

(** u64::from_str_radix(s, 16) *)
Definition parse_u64_hex (l : bytes) : option N :=
  let body := match l with 43 :: r => r | _ => l end in
  match body with
  | [] => None
  | _ => parse_digits 16 hex_value body 0
  end.

(** Ipv4Addr::from_str: four decimal octets of 1-3 digits, no leading zero unless the octet is "0",
    value <= 255, separated by '.', nothing else. *)
Fixpoint split_on (sep : N) (l cur : bytes) : list bytes :=
  match l with
  | [] => [rev cur]
  | c :: r => if c =? sep then rev cur :: split_on sep r [] else split_on sep r (c :: cur)
  end.
Definition parse_octet (l : bytes) : option N :=
  match l with
  | [] => None
  | [a] => dec_value a
  | 48 :: _ => None
  | _ => if Nat.ltb 3 (length l) then None
         else match parse_digits 10 dec_value l 0 with
              | Some v => if v <=? 255 then Some v else None
              | None => None
              end
  end.
Definition parse_ipv4 (l : bytes) : option N :=
  match split_on 46 l [] with
  | [a; b; c; d] =>
    match parse_octet a, parse_octet b, parse_octet c, parse_octet d with
    | Some x, Some y, Some z, Some w => Some (((x * 256 + y) * 256 + z) * 256 + w)
    | _, _, _, _ => None
    end
  | _ => None
  end.

Definition parse_bool (l : bytes) : option bool :=
  if bytes_eqb l [116; 114; 117; 101] then Some true
  else if bytes_eqb l [102; 97; 108; 115; 101] then Some false
  else None.

(** impl FromStr for Buf.  State: hex mode?, the pending high nibble. Fuel = length. *)
Definition is_hex_separator (cp : N) : bool :=
  (cp =? 58) || (cp =? 46) || (cp =? 95) || (cp =? 45) || (cp =? 39) || (cp =? 96).

Fixpoint decode_strlit_fuel (fuel : nat) (l : bytes) (hex : bool) (hi : option N) (acc : bytes) : option bytes :=
  match l with
  | [] => Some (rev acc)
  | _ =>
    match fuel with
    | O => None
    | S fuel' =>
      match utf8_decode l with
      | None => None          (* not reachable for a Rust str *)
      | Some (cp, n) =>
        let rest := skipn n l in
        if negb hex then
          if cp =? 124 then decode_strlit_fuel fuel' rest true None acc
          else decode_strlit_fuel fuel' rest false None (rev (firstn n l) ++ acc)
        else
          if is_whitespace cp then decode_strlit_fuel fuel' rest true hi acc
          else if is_hex_separator cp then decode_strlit_fuel fuel' rest true hi acc
          else if cp =? 124 then
            match hi with
            | Some _ => None                      (* odd number of hex digits *)
            | None => decode_strlit_fuel fuel' rest false None acc
            end
          else
            match (if cp <? 128 then hex_value cp else None) with
            | None => None                        (* non-hex in hex sequence *)
            | Some d =>
              match hi with
              | None => decode_strlit_fuel fuel' rest true (Some d) acc
              | Some h => decode_strlit_fuel fuel' rest true None ((h * 16 + d) :: acc)
              end
            end
      end
    end
  end.

Definition decode_strlit (l : bytes) : option bytes := decode_strlit_fuel (length l) l false None [].

(** Val::from_token *)
Definition val_of_token (t : token) : outcome val :=
  match tk_val t with
  | None => Panic "lex.rs Token::val: unwrap on None"
  | Some v =>
    match tk_type t with
    | TStringLit => match decode_strlit v with Some b => Ok (VStr b) | None => Err EParse end
    | TIPv4Lit => match parse_ipv4 v with Some a => Ok (VIp4 a) | None => Err EParse end
    | TIntLit => match parse_u64_dec v with Some n => Ok (VU64 n) | None => Err EParse end
    | TBoolLit => match parse_bool v with Some b => Ok (VBool b) | None => Err EParse end
    | THexLit =>
      match v with
      | 48 :: 120 :: h => match parse_u64_hex h with Some n => Ok (VU64 n) | None => Err EParse end
      | _ => Panic "val.rs strip_prefix(0x).unwrap()"
      end
    | _ => Panic "val.rs from_token: unreachable"
    end
  end.
