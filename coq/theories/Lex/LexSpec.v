(** The lexical rules of the resynth language, stated on their own: what a lexeme of each class
    looks like, which class wins, how a line falls apart into lexemes, and which tokens (kind,
    location, text) the lexemes denote.  Nothing here refers to the scanner model (Lex/Scanner.v)
    or to regular expressions; Proofs/C10 shows the scanner computes exactly this.

    A line is a byte string holding valid UTF-8.  Columns are byte columns, counted from 1.
    No proofs in this file. *)
From RS Require Import Base.Bytes Base.Outcome Base.Utf8 Lex.Tokens Lex.LexClass.
Open Scope N_scope.

(** ** 1. Characters *)
Definition letter (c : N) : bool := ((65 <=? c) && (c <=? 90)) || ((97 <=? c) && (c <=? 122)).
Definition digit (c : N) : bool := (48 <=? c) && (c <=? 57).
Definition hexdigit (c : N) : bool := digit c || ((65 <=? c) && (c <=? 70)) || ((97 <=? c) && (c <=? 102)).
Definition ident_char (c : N) : bool := letter c || digit c || (c =? 95).
Definition newline : N := 10.
Definition quote : N := 34.

(** length of the longest prefix of [s] whose bytes all satisfy [p] *)
Fixpoint span (p : N -> bool) (s : bytes) : nat :=
  match s with
  | c :: r => if p c then S (span p r) else O
  | [] => O
  end.

Fixpoint starts_with (w s : bytes) : bool :=
  match w, s with
  | [], _ => true
  | c :: w', d :: s' => (c =? d) && starts_with w' s'
  | _ :: _, [] => false
  end.

(** does a byte satisfying [p] come directly after the first [n] bytes of [s]? *)
Definition followed_by (p : N -> bool) (n : nat) (s : bytes) : bool :=
  match skipn n s with c :: _ => p c | [] => false end.

Definition text (w : string) : bytes := bytes_of_string w.

(** ** 2. The extent of each class at the head of [s]  (0 = no lexeme of this class starts here) *)

(** blank space: whole characters with the Unicode White_Space property, other than the newline *)
Definition blank_width (s : bytes) : nat :=
  match utf8_decode s with
  | Some (cp, n) => if is_whitespace cp && negb (cp =? newline) then n else O
  | None => O
  end.
Fixpoint blanks (fuel : nat) (s : bytes) : nat :=
  match fuel with
  | O => O
  | S f => match blank_width s with
           | O => O
           | n => (n + blanks f (skipn n s))%nat
           end
  end.

(** a comment runs from its introducer to the end of the line *)
Definition to_eol (s : bytes) : nat := span (fun c => negb (c =? newline)) s.

(** a fixed spelling *)
Definition exactly (w : string) (s : bytes) : nat :=
  if starts_with (text w) s then length (text w) else O.

(** a reserved word, unless an identifier character follows it *)
Definition word (w : string) (s : bytes) : nat :=
  if starts_with (text w) s && negb (followed_by ident_char (length (text w)) s)
  then length (text w) else O.

(** an identifier: a letter or underscore, then as many identifier characters as there are *)
Definition identifier (s : bytes) : nat :=
  match s with
  | c :: _ => if letter c || (c =? 95) then span ident_char s else O
  | [] => O
  end.

(** a dotted quad.  An octet is one to three digits denoting at most 255 (leading zeros allowed).
    The first three octets are each a whole run of digits ended by a dot; the fourth is the longest
    octet that can be read after the third dot (so 1.2.3.256 is the address 1.2.3.25, then 6). *)
Definition dec_value (w : bytes) : N := fold_left (fun a c => a * 10 + (c - 48)) w 0.
Definition is_octet (w : bytes) : bool :=
  Nat.leb 1 (length w) && Nat.leb (length w) 3 && forallb digit w && (dec_value w <=? 255).
Definition octet_dot (s : bytes) : nat :=
  let n := span digit s in
  if is_octet (firstn n s) && followed_by (fun c => c =? 46) n s then S n else O.
Definition last_octet (s : bytes) : nat :=
  match find (fun n => Nat.eqb (length (firstn n s)) n && is_octet (firstn n s)) [3; 2; 1]%nat with
  | Some n => n
  | None => O
  end.
Definition dotted_quad (s : bytes) : nat :=
  match octet_dot s with
  | O => O
  | n1 =>
    match octet_dot (skipn n1 s) with
    | O => O
    | n2 =>
      match octet_dot (skipn (n1 + n2) s) with
      | O => O
      | n3 =>
        match last_octet (skipn (n1 + n2 + n3) s) with
        | O => O
        | n4 => (n1 + n2 + n3 + n4)%nat
        end
      end
    end
  end.

(** a string literal: from a double quote to the next double quote (there are no escapes) *)
Definition string_literal (s : bytes) : nat :=
  match s with
  | c :: r =>
    if c =? quote then
      let n := span (fun c => negb (c =? quote)) r in
      if followed_by (fun c => c =? quote) n r then S (S n) else O
    else O
  | [] => O
  end.

(** 0x and at least one hexadecimal digit, as many as there are *)
Definition hex_integer (s : bytes) : nat :=
  if starts_with (text "0x") s then
    match span hexdigit (skipn 2 s) with O => O | n => S (S n) end
  else O.

(** an optional minus sign and at least one digit, as many as there are *)
Definition integer (s : bytes) : nat :=
  let sign := if starts_with (text "-") s then 1%nat else O in
  match span digit (skipn sign s) with O => O | n => (sign + n)%nat end.

(** ** 3. The classes, earlier ones winning over later ones *)
Definition extent (k : lexclass) (s : bytes) : nat :=
  match k with
  | KWhitespace => blanks (length s) s
  | KHashComment => if starts_with (text "#") s then to_eol s else O
  | KCppComment => if starts_with (text "//") s then to_eol s else O
  | KNewLine => if starts_with [newline] s then 1%nat else O
  | KTok TLParen => exactly "(" s
  | KTok TRParen => exactly ")" s
  | KTok TDot => exactly "." s
  | KTok TDoubleColon => exactly "::" s
  | KTok TColon => exactly ":" s
  | KTok TSemiColon => exactly ";" s
  | KTok TEquals => exactly "=" s
  | KTok TComma => exactly "," s
  | KTok TSlash => exactly "/" s
  | KTok TImport => word "import" s
  | KTok TLet => word "let" s
  | KTok TBoolLit => Nat.max (word "true" s) (word "false" s)
  | KTok TIdent => identifier s
  | KTok TIPv4Lit => dotted_quad s
  | KTok TStringLit => string_literal s
  | KTok THexLit => hex_integer s
  | KTok TIntLit => integer s
  | KTok TEof => O
  end.

Definition classes : list lexclass :=
  [ KWhitespace; KHashComment; KCppComment; KNewLine;
    KTok TLParen; KTok TRParen; KTok TDot; KTok TDoubleColon; KTok TColon; KTok TSemiColon;
    KTok TEquals; KTok TComma; KTok TSlash;
    KTok TImport; KTok TLet; KTok TBoolLit; KTok TIdent;
    KTok TIPv4Lit; KTok TStringLit; KTok THexLit; KTok TIntLit ].

(** the first class that has a (non-empty) lexeme at the head of [s], and how long it is *)
Definition first_class (s : bytes) : option (lexclass * nat) :=
  match find (fun k => negb (Nat.eqb (extent k s) 0)) classes with
  | Some k => Some (k, extent k s)
  | None => None
  end.

(** ** 4. From a line to tokens, for any way [classify] of recognising the lexeme at the head of
    a text (the specification uses [first_class]) *)
Section Pipeline.
  Variable classify : bytes -> option (lexclass * nat).

  (** cut [s] into lexemes until nothing is left or nothing can start; the second component is
      the part that was not cut (empty iff the whole of [s] was) *)
  Fixpoint lexemes (fuel : nat) (s : bytes) : list lexeme * bytes :=
    match s with
    | [] => ([], [])
    | _ :: _ =>
      match fuel with
      | O => ([], s)
      | S f =>
        match classify s with
        | None => ([], s)
        | Some (k, n) =>
          let (ls, rest) := lexemes f (skipn n s) in ((k, firstn n s) :: ls, rest)
        end
      end
    end.

  (** Loc holds two 32-bit numbers: line, 1-based byte column of the byte at offset [off] *)
  Definition loc_at (lno off : N) : loc := (lno mod 4294967296, (off + 1) mod 4294967296).

  (** the text a token keeps *)
  Definition token_text (t : toktype) (w : bytes) : option bytes :=
    match t with
    | TIdent | THexLit | TIntLit | TBoolLit | TIPv4Lit => Some w
    | _ => None
    end.
  (** what is between the quotes of a string-literal lexeme *)
  Definition literal_body (w : bytes) : bytes := removelast (tl w).

  (** the pending string literal, delivered as one token at the place of the token that ends it *)
  Definition flush (lno off : N) (pend : option bytes) : list token :=
    match pend with
    | Some v => [{| tk_type := TStringLit; tk_loc := loc_at lno off; tk_val := Some v |}]
    | None => []
    end.
  Definition pend_text (pend : option bytes) : bytes :=
    match pend with Some v => v | None => [] end.

  (** Tokens of a sequence of lexemes that starts at byte offset [off], with [pend] the string
      literal still pending in front of it: skipped lexemes vanish; a string literal is added to
      the pending one; any other lexeme first delivers the pending literal, then itself, both at
      its own location.  Returns the tokens and what is pending at the end. *)
  Fixpoint assemble (lno off : N) (pend : option bytes) (ls : list lexeme) : list token * option bytes :=
    match ls with
    | [] => ([], pend)
    | (k, w) :: r =>
      let off' := off + len w in
      match k with
      | KTok TStringLit => assemble lno off' (Some (pend_text pend ++ literal_body w)) r
      | KTok t =>
        let (ts, p) := assemble lno off' None r in
        (flush lno off pend ++ {| tk_type := t; tk_loc := loc_at lno off; tk_val := token_text t w |} :: ts, p)
      | _ => assemble lno off' pend r
      end
    end.

  (** One line.  Result: (location the lexer reports afterwards, string literal still pending),
      and the tokens, or a lex error located at the first byte that starts no lexeme. *)
  Definition line_tokens (pend : option bytes) (lno : N) (line : bytes)
    : (loc * option bytes) * outcome (list token) :=
    let (ls, rest) := lexemes (length line) line in
    let scanned := len (concat (map snd ls)) in
    match rest with
    | [] => let (ts, p) := assemble lno 0 pend ls in ((loc_at lno scanned, p), Ok ts)
    | _ :: _ => ((loc_at lno scanned, None), Err ELex)
    end.

  (** Several lines, numbered from [lno], threading (reported location, pending literal); the
      tokens of all lines one after the other; stops at the first error *)
  Fixpoint lines_tokens (st : loc * option bytes) (lno : N) (lines : list bytes)
    : (loc * option bytes) * outcome (list token) :=
    match lines with
    | [] => (st, Ok [])
    | l :: r =>
      match line_tokens (snd st) lno l with
      | (st1, Ok ts) =>
        match lines_tokens st1 (lno + 1) r with
        | (st2, Ok ts') => (st2, Ok (ts ++ ts'))
        | other => other
        end
      | other => other
      end
    end.
End Pipeline.

(** ** 5. The specification of Lexer::line *)
Definition spec_line : option bytes -> N -> bytes -> (loc * option bytes) * outcome (list token) :=
  line_tokens first_class.

(** ** 6. Vocabulary for the theorems about the lexer (Props/C10.v) *)

(** [cuts classify s ls rest]: the lexemes [ls], in order, are what [classify] recognises at the
    successive positions of [s], each non-empty, and [rest] is what remains after them *)
Fixpoint cuts (classify : bytes -> option (lexclass * nat)) (s : bytes) (ls : list lexeme) (rest : bytes) : Prop :=
  match ls with
  | [] => s = rest
  | (k, x) :: ls' =>
    x <> [] /\ classify s = Some (k, length x) /\ exists s', s = x ++ s' /\ cuts classify s' ls' rest
  end.

(** a token other than a string literal sits on a lexeme of its kind: its column is one more than
    the number of bytes in front of that lexeme, its text is the lexeme *)
Definition token_placed (classify : bytes -> option (lexclass * nat)) (lno : N) (line : bytes) (t : token) : Prop :=
  tk_type t <> TStringLit ->
  exists pre x suf,
    line = pre ++ x ++ suf /\ tk_loc t = loc_at lno (len pre)
    /\ classify (x ++ suf) = Some (KTok (tk_type t), length x)
    /\ tk_val t = token_text (tk_type t) x.

(** every string-literal token is directly followed by a token of another kind at the same location
    (the token that ended the literal) *)
Fixpoint strings_located (ts : list token) : Prop :=
  match ts with
  | [] => True
  | t :: r =>
    (tk_type t = TStringLit ->
     match r with
     | t' :: _ => tk_loc t' = tk_loc t /\ tk_type t' <> TStringLit
     | [] => False
     end) /\ strings_located r
  end.

(** a token stream, locations aside *)
Definition strip_loc (t : token) : toktype * option bytes := (tk_type t, tk_val t).

(** the same token with another line number *)
Definition reline (lno : N) (t : token) : token :=
  {| tk_type := tk_type t; tk_loc := (lno mod 4294967296, snd (tk_loc t)); tk_val := tk_val t |}.

(** what a sequence of lexemes means, locations aside: the kinds and texts of its tokens (adjacent
    string literals merged, skipped lexemes dropped) and the literal still pending at its end *)
Definition essence (pend : option bytes) (ls : list lexeme) : list (toktype * option bytes) * option bytes :=
  let (ts, p) := assemble 0 0 pend ls in (map strip_loc ts, p).

(** a string-literal lexeme with the given text between its quotes *)
Definition string_lexeme (body : bytes) : lexeme := (KTok TStringLit, quote :: body ++ [quote]).
