(** src/lex.rs: the 21 capture groups of LEX_RE = the 21 lexeme classes, shared by the scanner
    model (Lex/Scanner.v) and the lexical specification (Lex/LexSpec.v).  The four skipped
    classes never become tokens (TokType::ignore); the other 17 are the token kinds of Lex/Tokens.v. *)
From RS Require Import Base.Bytes Lex.Tokens.

Inductive lexclass :=
| KWhitespace | KHashComment | KCppComment | KNewLine
| KTok (t : toktype).

(** TokType::ignore *)
Definition skipped (k : lexclass) : bool :=
  match k with KTok _ => false | _ => true end.

Definition lexclass_eqb (a b : lexclass) : bool :=
  match a, b with
  | KWhitespace, KWhitespace | KHashComment, KHashComment | KCppComment, KCppComment
  | KNewLine, KNewLine => true
  | KTok x, KTok y => toktype_eqb x y
  | _, _ => false
  end.

(** a lexeme: its class and its text *)
Definition lexeme := (lexclass * bytes)%type.
