(** I/O failure model (C19): a file with a failure point, Rust's std [io::BufWriter] on top of it,
    the pcap writer protocol of pkt/src/pcap.rs + src/cli.rs, and the CLI's report.

    - the file: [fwrite] is write(2) on a regular file under RLIMIT_FSIZE = L with SIGXFSZ ignored, or on a
      device that is full from offset L on (/dev/full: L = 0): beyond the limit the call fails, a call that
      straddles the limit is a short write;
    - [BufWriter]: library/std/src/io/buffered/bufwriter.rs (flush_buf with its BufGuard, write_all,
      write_all_cold, flush, Drop) and the default [Write::write_all] used for [File];
    - the protocol: PcapWriter::create (File::create, 24-byte header through write_all), one write_all per
      record (PcapWriter::write_packet), Program::flush at the end of process_file, then the writer is dropped;
      src/cli.rs resynth(): status line, exit status, removal of the output unless -k.
    No proofs here (Proofs/C19). *)
From RS Require Import Base.Bytes Base.Outcome Pkt.Pcap Lex.Tokens.
Open Scope N_scope.

(** ** the file *)

(** one write(2): [None] = error (EFBIG / ENOSPC), [Some (n, f')] = n bytes accepted *)
Definition fwrite (limit : option N) (f chunk : bytes) : option (N * bytes) :=
  match chunk with
  | [] => Some (0, f)
  | _ :: _ =>
    match limit with
    | None => Some (len chunk, f ++ chunk)
    | Some L =>
      if L <=? len f then None
      else let n := N.min (len chunk) (L - len f) in Some (n, f ++ takeN n chunk)
    end
  end.

(** [Write::write_all] (the trait's default method, which [File] uses): loop over short writes;
    Ok(0) is ErrorKind::WriteZero.  EINTR is not modelled. *)
Fixpoint file_write_all (fuel : nat) (limit : option N) (f chunk : bytes) : outcome unit * bytes :=
  match chunk with
  | [] => (Ok tt, f)
  | _ :: _ =>
    match fuel with
    | O => (OutOfFuel, f)
    | S fuel' =>
      match fwrite limit f chunk with
      | None => (Err EIo, f)
      | Some (n, f') =>
        if n =? 0 then (Err EIo, f') else file_write_all fuel' limit f' (dropN n chunk)
      end
    end
  end.

(** ** BufWriter<File> *)

(** [bw_file]: what the file holds; [bw_buf]: the buffered bytes not yet handed to the file.
    (The [panicked] flag only matters when the inner writer panics, which [File] does not.) *)
Record bufw := { bw_file : bytes; bw_buf : bytes }.

Section BufWriter.
Variable cap : N.                (* buf.capacity(): DEFAULT_BUF_SIZE = 8192 for BufWriter::new *)
Variable limit : option N.

(** flush_buf: write the buffer until it is empty; on every exit BufGuard's destructor drains what
    has been written, so after an error the unwritten tail stays buffered *)
Fixpoint flush_loop (fuel : nat) (f rem : bytes) : outcome unit * bufw :=
  match rem with
  | [] => (Ok tt, {| bw_file := f; bw_buf := [] |})
  | _ :: _ =>
    match fuel with
    | O => (OutOfFuel, {| bw_file := f; bw_buf := rem |})
    | S fuel' =>
      match fwrite limit f rem with
      | None => (Err EIo, {| bw_file := f; bw_buf := rem |})
      | Some (n, f') =>
        if n =? 0 then (Err EIo, {| bw_file := f'; bw_buf := rem |})     (* WriteZero *)
        else flush_loop fuel' f' (dropN n rem)
      end
    end
  end.

Definition flush_buf (w : bufw) : outcome unit * bufw :=
  flush_loop (length (bw_buf w)) (bw_file w) (bw_buf w).

Definition spare (w : bufw) : N := cap - len (bw_buf w).

(** write_to_buffer_unchecked *)
Definition to_buffer (w : bufw) (chunk : bytes) : bufw :=
  {| bw_file := bw_file w; bw_buf := bw_buf w ++ chunk |}.

Definition write_all_cold (w : bufw) (chunk : bytes) : outcome unit * bufw :=
  let (r, w1) := if spare w <? len chunk then flush_buf w else (Ok tt, w) in
  match r with
  | Ok _ =>
    if cap <=? len chunk then
      (* self.get_mut().write_all(buf): straight to the file, nothing of it is ever buffered *)
      let (r2, f2) := file_write_all (length chunk) limit (bw_file w1) chunk in
      (r2, {| bw_file := f2; bw_buf := bw_buf w1 |})
    else (Ok tt, to_buffer w1 chunk)
  | _ => (r, w1)
  end.

(** <BufWriter as Write>::write_all *)
Definition bw_write_all (w : bufw) (chunk : bytes) : outcome unit * bufw :=
  if len chunk <? spare w then (Ok tt, to_buffer w chunk) else write_all_cold w chunk.

(** <BufWriter as Write>::flush: flush_buf, then File::flush which does nothing *)
Definition bw_flush (w : bufw) : outcome unit * bufw := flush_buf w.

(** Drop: `let _r = self.flush_buf();` -- the error, if any, is discarded *)
Definition bw_drop (w : bufw) : bufw := snd (flush_buf w).

(** ** the pcap writer protocol *)

Definition bw_new : bufw := {| bw_file := []; bw_buf := [] |}.

(** PcapWriter::create after File::create succeeded *)
Definition pw_create : outcome unit * bufw := bw_write_all bw_new pcap_ghdr.

(** Operations are numbered: 0 = the header write inside create, k = the write_all of the k-th
    record (1-based), n+1 = the explicit flush at the end of process_file. *)
Inductive io_outcome :=
| IoDone                      (* every operation returned Ok *)
| IoFailedAt (op : nat)       (* operation [op] returned an io::Error; nothing after it was attempted *)
| IoPanicAt (op : nat)        (* only in the pre-fix protocol: .expect("failed to write packet") *)
| IoCreateFailed              (* File::create returned an error *)
| IoFuel.                     (* a loop of the model ran out of fuel (proved impossible) *)

(** the writer state when the run stopped (before it is dropped) *)
Fixpoint write_records (w : bufw) (op : nat) (recs : list bytes) : io_outcome * bufw :=
  match recs with
  | [] => (IoDone, w)
  | r :: rest =>
    match bw_write_all w r with
    | (Ok _, w') => write_records w' (S op) rest
    | (OutOfFuel, w') => (IoFuel, w')
    | (_, w') => (IoFailedAt op, w')
    end
  end.

(** how the program ends once the records are out *)
Inductive ending :=
| EndFlush      (* end of input reached without error: process_file calls prog.flush() *)
| EndAbort.     (* the program stopped for another reason (lex/parse/run-time error, panic): no flush, drop only *)

Definition run_writer (recs : list bytes) (e : ending) : io_outcome * bufw :=
  match pw_create with
  | (Ok _, w0) =>
    match write_records w0 1 recs with
    | (IoDone, w) =>
      match e with
      | EndFlush =>
        match bw_flush w with
        | (Ok _, w') => (IoDone, w')
        | (OutOfFuel, w') => (IoFuel, w')
        | (_, w') => (IoFailedAt (S (length recs)), w')
        end
      | EndAbort => (IoDone, w)
      end
    | x => x
    end
  | (OutOfFuel, w0) => (IoFuel, w0)
  | (_, w0) => (IoFailedAt 0, w0)
  end.

(** result of the I/O side of one run: what was reported, and what the file holds once the writer
    has been dropped (None: the file was never created) *)
Record io_result := { io_out : io_outcome; io_file : option bytes }.

Definition session_io (create_ok : bool) (recs : list bytes) (e : ending) : io_result :=
  if create_ok then
    let (o, w) := run_writer recs e in {| io_out := o; io_file := Some (bw_file (bw_drop w)) |}
  else {| io_out := IoCreateFailed; io_file := None |}.

(** The protocol before the fix of D21: a failed record write is `.expect(..)` = panic, and there is
    no flush at the end; errors of the implicit flush in Drop are lost. *)
Fixpoint write_records_old (w : bufw) (op : nat) (recs : list bytes) : io_outcome * bufw :=
  match recs with
  | [] => (IoDone, w)
  | r :: rest =>
    match bw_write_all w r with
    | (Ok _, w') => write_records_old w' (S op) rest
    | (OutOfFuel, w') => (IoFuel, w')
    | (_, w') => (IoPanicAt op, w')
    end
  end.

Definition session_io_old (create_ok : bool) (recs : list bytes) : io_result :=
  if create_ok then
    match pw_create with
    | (Ok _, w0) =>
      let (o, w) := write_records_old w0 1 recs in {| io_out := o; io_file := Some (bw_file (bw_drop w)) |}
    | (OutOfFuel, w0) => {| io_out := IoFuel; io_file := Some (bw_file (bw_drop w0)) |}
    | (_, w0) => {| io_out := IoFailedAt 0; io_file := Some (bw_file (bw_drop w0)) |}
    end
  else {| io_out := IoCreateFailed; io_file := None |}.

(** ** where the failure is reported: buffer occupancy without faults *)

(** one write_all of a chunk of length l, on (bytes in the file, bytes in the buffer) *)
Definition occ_step (sb : N * N) (l : N) : N * N :=
  let (s, b) := sb in
  if l <? cap - b then (s, b + l)
  else
    let (s1, b1) := if cap - b <? l then (s + b, 0) else (s, b) in
    if cap <=? l then (s1 + l, b1) else (s1, b1 + l).

(** file size after each operation of a fault-free session: header, records, final flush *)
Fixpoint occ_sizes (sb : N * N) (lens : list N) : list N :=
  match lens with
  | [] => [fst sb + snd sb]                     (* the flush pushes everything *)
  | l :: r => let sb' := occ_step sb l in fst sb' :: occ_sizes sb' r
  end.

Definition pushed_sizes (recs : list bytes) : list N :=
  occ_sizes (0, 0) (len pcap_ghdr :: map len recs).

End BufWriter.

(** index of the first element above L *)
Fixpoint first_above (L : N) (l : list N) (i : nat) : option nat :=
  match l with
  | [] => None
  | s :: r => if L <? s then Some i else first_above L r (S i)
  end.

Definition CAP : N := 8192.

(** ** the CLI's report for one input (src/cli.rs resynth()) *)

Inductive status :=
| StOk                                (* "<in> -> <out> ok" *)
| StErr (l : loc) (e : error)         (* "<in>[:line:col]: error: process_file: <e>" *)
| StPanic (site : string).            (* the process dies: nothing more is printed on stdout *)

Record report := {
  rp_status : status;
  rp_exit : N;                        (* contribution to the exit status: 0, 1, or 101 for a panic *)
  rp_file : option bytes;             (* the output path afterwards: None = no file there *)
  rp_delete_diag : bool               (* a second line "<in>: error: delete: ..." because remove_file failed *)
}.

Definition cli_report (keep : bool) (st : status) (file : option bytes) : report :=
  match st with
  | StOk => {| rp_status := st; rp_exit := 0; rp_file := file; rp_delete_diag := false |}
  | StErr _ _ =>
    if keep then {| rp_status := st; rp_exit := 1; rp_file := file; rp_delete_diag := false |}
    else {| rp_status := st; rp_exit := 1; rp_file := None;
            rp_delete_diag := match file with None => true | Some _ => false end |}
  | StPanic _ => {| rp_status := st; rp_exit := 101; rp_file := file; rp_delete_diag := false |}
  end.

Definition status_of_io (o : io_outcome) : status :=
  match o with
  | IoDone => StOk
  | IoFailedAt _ | IoCreateFailed => StErr nil_loc EIo
  | IoPanicAt _ => StPanic "failed to write packet"
  | IoFuel => StPanic "model: out of fuel"
  end.

(** the session of the task statement: records in, report out (the location of a failing record is
    added by the pipeline model in Interp/IoRun.v) *)
Definition session (keep : bool) (limit : option N) (create_ok : bool) (recs : list bytes) : report :=
  let r := session_io CAP limit create_ok recs EndFlush in
  cli_report keep (status_of_io (io_out r)) (io_file r).

Definition session_old (keep : bool) (limit : option N) (create_ok : bool) (recs : list bytes) : report :=
  let r := session_io_old CAP limit create_ok recs in
  cli_report keep (status_of_io (io_out r)) (io_file r).

Definition says_ok (r : report) : bool := match rp_status r with StOk => true | _ => false end.
Definition panics (r : report) : bool := match rp_status r with StPanic _ => true | _ => false end.
