(** src/cli.rs process_file: bytes of a source file -> lines -> tokens -> statements -> effects.
    Reductions of the parser run on the *next* token, and statements are executed line by line
    (parse.get_results() after each line), so a statement takes effect when the line containing the
    token after it has been lexed and fed -- exactly as in the code. *)
From RS Require Import Base.Bytes Base.Outcome Base.Utf8 Bind.Types Pkt.Packet Pkt.Pcap
  Lex.Tokens Lex.Scanner Parse.Automaton Interp.Val Interp.Ast Interp.Eval Lib.LibBase.
Open Scope N_scope.

(** BufRead::lines: split at LF; a CR directly before the LF is stripped; a final line without LF is kept
    as is (and yields no line when empty) *)
Fixpoint split_lines_aux (l cur : bytes) : list bytes :=
  match l with
  | [] => match cur with [] => [] | _ => [rev cur] end
  | 10 :: r => (match cur with 13 :: c' => rev c' | _ => rev cur end) :: split_lines_aux r []
  | c :: r => split_lines_aux r (c :: cur)
  end.
Definition split_lines (src : bytes) : list bytes := split_lines_aux src [].

Inductive cli_result :=
| CliOk (p : prog)
| CliErr (e : error) (at_loc : loc) (p : prog)
| CliPanic (site : string).

Section Cli.
Variable functions : list funcdef.
Variable classes : list (string * list (string * string)).
Variable modules : list (string * list (string * symbol)).
Variable exec : string -> option nat -> list val -> list val -> heap -> option libres.

Notation add_stmts := (add_stmts functions classes modules exec).

Definition run_stmts (p : prog) (ss : list stmt) (k : prog -> cli_result) : cli_result :=
  match add_stmts p ss with
  | ROk _ p' => k p'
  | RErr e p' => CliErr e (p_loc p') p'
  | RPanic s _ => CliPanic s
  end.

(** feed the tokens of one line; the error location is the offending token's *)
Fixpoint feed_line (ps : parser) (ts : list token) : outcome parser + (error * loc) :=
  match ts with
  | [] => inl (Ok ps)
  | t :: r =>
    match feed ps t with
    | Ok ps' => feed_line ps' r
    | Err e => inr (e, tk_loc t)
    | Panic s => inl (Panic s)
    | OutOfFuel => inl OutOfFuel
    end
  end.

Fixpoint process_lines (lno : N) (lines : list bytes) (lx : lexer) (ps : parser) (p : prog) : cli_result :=
  match lines with
  | [] =>
    (* end of input: feed EOF, run what it completes *)
    match feed ps eof_token with
    | Ok ps' => let (ss, _) := get_results ps' in run_stmts p ss (fun p' => CliOk p')
    | Err e => CliErr e (lx_loc lx) p
    | Panic s => CliPanic s
    | OutOfFuel => CliPanic "parser fuel"
    end
  | line :: rest =>
    if negb (utf8_valid line) then CliErr EIo nil_loc p          (* BufRead::lines: invalid UTF-8 *)
    else
      let (lx', toks) := lex_line lx lno line in
      match toks with
      | Err e => CliErr e (lx_loc lx') p
      | Panic s => CliPanic s
      | OutOfFuel => CliPanic "lexer fuel"
      | Ok ts =>
        match feed_line ps ts with
        | inr (e, l) => CliErr e l p
        | inl (Panic s) => CliPanic s
        | inl OutOfFuel => CliPanic "parser fuel"
        | inl (Err e) => CliErr e nil_loc p
        | inl (Ok ps') =>
          let (ss, ps'') := get_results ps' in
          run_stmts p ss (fun p' => process_lines (lno + 1) rest lx' ps'' p')
        end
      end
  end.

Definition process_file (src : bytes) : cli_result :=
  process_lines 1 (split_lines src) lexer_init parser_init prog_init.

End Cli.
