(** src/parse.rs: the syntax tree (Stmt, Expr, ObjectRef, Call, ArgExpr). *)
From RS Require Import Base.Bytes Interp.Val Lex.Tokens.

Definition loc := Tokens.loc.

Inductive expr :=
| ENil
| ELit (l : loc) (v : val)
| ERef (l : loc) (modules components : list string)
| ECall (l : loc) (modules components : list string) (args : list (option string * expr))
| ESlash (a b : expr).

Inductive stmt :=
| SImport (l : loc) (name : string)
| SAssign (l : loc) (target : string) (rvalue : expr)
| SExpr (e : expr).
