(** src/val.rs: Val, its ValType, and the From<Val> conversions used by the library. *)
From RS Require Import Base.Bytes Base.Outcome Bind.Types Pkt.Packet Ez.Tcp Ez.Udp Ez.Icmp Ez.Ip4 Ez.Gre.
Open Scope N_scope.

Inductive obj :=
| OTcp (f : tcp_flow) | OUdp (f : udp_flow) | OIcmp (f : icmp_flow) | OFrag (f : ip_frag)
| OVxlan (f : vxlan_flow) | OGre (f : gre_flow) | OErspan1 (f : erspan1_flow) | OErspan2 (f : erspan2_flow)
| OBufIo (buf : bytes) (taken : N).

(** class key (path in the symbol table) of an object *)
Definition obj_class (o : obj) : string :=
  match o with
  | OTcp _ => "ipv4::tcp::TcpFlow" | OUdp _ => "ipv4::udp::UdpFlow" | OIcmp _ => "ipv4::icmp::Icmp"
  | OFrag _ => "ipv4::IpFrag" | OVxlan _ => "vxlan::Vxlan" | OGre _ => "gre::Gre"
  | OErspan1 _ => "erspan1::Erspan1" | OErspan2 _ => "erspan2::Erspan2" | OBufIo _ _ => "io::BufIO"
  end%string.

Inductive val :=
| VNil | VBool (b : bool) | VU8 (n : N) | VU16 (n : N) | VU32 (n : N) | VU64 (n : N)
| VIp4 (a : N) | VSock4 (a p : N) | VStr (b : bytes)
| VObj (addr : nat) | VFunc (key : string) | VMethod (addr : nat) (key : string)
| VPkt (p : packet) | VPktGen (ps : list packet) | VTimeJump (ns : N).

Definition val_type (v : val) : vtype :=
  match v with
  | VNil => TVoid | VBool _ => TBool | VU8 _ => TU8 | VU16 _ => TU16 | VU32 _ => TU32 | VU64 _ => TU64
  | VIp4 _ => TIp4 | VSock4 _ _ => TSock4 | VStr _ => TStr | VObj _ => TObj | VFunc _ => TFunc
  | VMethod _ _ => TMethod | VPkt _ => TPkt | VPktGen _ => TPktGen | VTimeJump _ => TTimeJump
  end.

(** impl From<ValDef> for Val *)
Definition val_of_valdef (d : valdef) : val :=
  match d with
  | DNil => VNil | DBool b => VBool b | DU8 n => VU8 n | DU16 n => VU16 n | DU32 n => VU32 n
  | DU64 n => VU64 n | DIp4 a => VIp4 a | DSock4 a p => VSock4 a p | DStr b => VStr b | DType _ => VNil
  end.

Definition heap := list obj.

(* ---- From<Val> conversions; a value kind the impl does not handle is a panic ---- *)
Definition conv_bool (v : val) : outcome bool :=
  match v with
  | VBool b => Ok b
  | VU8 n | VU16 n | VU32 n | VU64 n => Ok (negb (n =? 0))
  | _ => Panic "val.rs From<Val> for bool"
  end.
Definition conv_int (v : val) : outcome N :=
  match v with
  | VBool b => Ok (if b then 1 else 0)
  | VU8 n | VU16 n | VU32 n | VU64 n => Ok n
  | _ => Panic "val.rs From<Val> for integer"
  end.
Definition conv_u64 v := conv_int v.
Definition conv_u32 v := omap wrap32 (conv_int v).
Definition conv_u16 v := omap wrap16 (conv_int v).
Definition conv_u8 v := omap wrap8 (conv_int v).
Definition conv_sock (v : val) : outcome (N * N) :=
  match v with VSock4 a p => Ok (a, p) | _ => Panic "val.rs From<Val> for SocketAddrV4" end.
Definition conv_ip4 (v : val) : outcome N :=
  match v with VIp4 a => Ok a | _ => Panic "val.rs From<Val> for Ipv4Addr" end.
Definition conv_buf (v : val) : outcome bytes :=
  match v with
  | VPkt p => Ok (pkt_to_vec p)
  | VStr s => Ok s
  | VU8 n => Ok [n]
  | VU16 n => Ok (be16 n)
  | VU32 n => Ok (be32 n)
  | VU64 n => Ok (be64 n)
  | VIp4 a => Ok (be32 a)
  | _ => Panic "val.rs From<Val> for Buf"
  end.
Definition conv_pktgen (v : val) : outcome (list packet) :=
  match v with
  | VPktGen g => Ok g
  | VPkt p => Ok [p]
  | _ => Panic "val.rs From<Val> for Rc<Vec<Packet>>"
  end.
Definition conv_pkt (v : val) : outcome packet :=
  match v with VPkt p => Ok p | _ => Panic "val.rs From<Val> for Rc<Packet>" end.
Definition conv_opt {A} (c : val -> outcome A) (v : val) : outcome (option A) :=
  match v with VNil => Ok None | _ => omap Some (c v) end.

(** Args::join_extra(sep): every extra argument converted to bytes, joined *)
Definition join_extra (sep : bytes) (extra : list val) : outcome bytes :=
  do bs <- omapM conv_buf extra; Ok (join sep bs).
