(** The model instantiated with the concrete library and the regenerated catalogue. *)
From RS Require Import Base.Bytes Base.Outcome Bind.Types Pkt.Packet Pkt.Pcap Interp.Val Interp.Ast
  Interp.Eval Lib.LibBase Lib.StdLib.
From RSGen Require Import Catalogue.

Definition run_prog (e : env) (ss : list stmt) : res unit :=
  add_stmts catalogue class_table module_table (exec e) prog_init ss.

Inductive run_result :=
| RunOk (pcap : bytes) (warnings : list loc) (trace : list string)
| RunErr (e : error) (at_loc : loc) (partial_pcap : bytes)
| RunPanic (site : string).

Definition run (files : list (bytes * bytes)) (ss : list stmt) : run_result :=
  match run_prog {| env_files := files |} ss with
  | ROk _ p => RunOk (pcap_of p) (frev (p_warnings p)) (frev (p_trace p))
  | RErr e p => RunErr e (p_loc p) (pcap_of p)
  | RPanic s _ => RunPanic s
  end.

(** the whole pipeline on source bytes (src/cli.rs process_file) *)
From RS Require Import Interp.Cli.
Definition run_src (files : list (bytes * bytes)) (src : bytes) : run_result :=
  match process_file catalogue class_table module_table (exec {| env_files := files |}) src with
  | CliOk p => RunOk (pcap_of p) (frev (p_warnings p)) (frev (p_trace p))
  | CliErr e l p => RunErr e l (pcap_of p)
  | CliPanic s => RunPanic s
  end.
