(** src/cli.rs resynth(): the loop over the input files named on the command line.

    For each input path, in order: the output path is taken from -o or computed from the input's
    file stem and --out-dir (an input without a file name -- "..", "/", "" -- is refused: "not a file
    name"); an input whose output path was already used by an earlier input of this invocation is
    refused BEFORE it is compiled: "output file <out> is already used by another input", the earlier
    output is neither overwritten nor removed; otherwise the path is recorded and process_file runs
    with a fresh Lexer, Parser, Program and PcapWriter (Interp/Cli.v, Interp/Run.v: [run_src]); on
    success a line "<in> -> <out> ok" is printed; on an error a diagnostic line
    "<in>:<line>:<col>: error: process_file: <error>" is printed, the output file is removed unless
    --keep.  Every refusal or error sets the exit status to failure and the loop CONTINUES with the
    next input.  A panic aborts the process: nothing after it runs.

    The loop threads an explicit accumulator: exit status so far, the reports (what was printed, per
    input), the contents of the output paths, the output paths used so far, and whether the process
    has aborted.  Nothing else survives from one input to the next.  No proofs in this file; see
    Proofs/C13/BatchProofs.v. *)
From RS Require Import Base.Bytes Base.Outcome Bind.Types Lex.Tokens Interp.Run.

Inductive exit_status := ExitSuccess | ExitFailure.

(** one input: the path as given, the output path chosen for it ([None]: the path has no file
    name to derive one from), the bytes of the file *)
Record input := { in_path : string; in_out : option string; in_src : bytes }.

(** what happened to one input; the line(s) printed for it are determined by this and the paths *)
Inductive verdict :=
| Compiled (r : run_result)            (* process_file ran: "-> ok", or the diagnostic of its error *)
| RefusedNoName                        (* "<in>: error: process_file: not a file name" *)
| RefusedOutputUsed (out : string).    (* "<in>: error: process_file: output file <out> is already used by another input" *)

Record report := { rp_in : string; rp_verdict : verdict }.

(** contents of an output path: a whole file, or whatever a process that died had flushed *)
Inductive content := Whole (b : bytes) | Torn.
Definition fs := list (string * content).

Definition fs_remove (path : string) (f : fs) : fs :=
  filter (fun e => negb (String.eqb path (fst e))) f.
Definition fs_write (path : string) (c : content) (f : fs) : fs := (path, c) :: fs_remove path f.
Definition fs_lookup (path : string) (f : fs) : option content := assoc path f.

Record batch_state := {
  b_status : exit_status;
  b_reports : list report;         (* in the order printed *)
  b_fs : fs;
  b_used : list string;            (* `outputs`: the output paths of the inputs compiled so far *)
  b_aborted : option string        (* the panic site, once the process has died *)
}.

Definition batch_init (f : fs) : batch_state :=
  {| b_status := ExitSuccess; b_reports := []; b_fs := f; b_used := []; b_aborted := None |}.

Definition used (out : string) (l : list string) : bool := existsb (String.eqb out) l.

(** the report of an input that is compiled *)
Definition report_of (files : list (bytes * bytes)) (i : input) : report :=
  {| rp_in := in_path i; rp_verdict := Compiled (run_src files (in_src i)) |}.

Definition refuse (st : batch_state) (i : input) (v : verdict) : batch_state :=
  {| b_status := ExitFailure; b_reports := b_reports st ++ [{| rp_in := in_path i; rp_verdict := v |}];
     b_fs := b_fs st; b_used := b_used st; b_aborted := None |}.

(** the body of `for (i, input) in in_args.enumerate()` *)
Definition batch_step (keep : bool) (files : list (bytes * bytes)) (st : batch_state) (i : input) : batch_state :=
  match b_aborted st with
  | Some _ => st
  | None =>
    match in_out i with
    | None => refuse st i RefusedNoName
    | Some out =>
      if used out (b_used st) then refuse st i (RefusedOutputUsed out)
      else
        let rp := report_of files i in
        let us := b_used st ++ [out] in
        match run_src files (in_src i) with
        | RunOk pcap _ _ =>
          {| b_status := b_status st; b_reports := b_reports st ++ [rp];
             b_fs := fs_write out (Whole pcap) (b_fs st); b_used := us; b_aborted := None |}
        | RunErr _ _ partial =>
          {| b_status := ExitFailure; b_reports := b_reports st ++ [rp];
             b_fs := if keep then fs_write out (Whole partial) (b_fs st) else fs_remove out (b_fs st);
             b_used := us; b_aborted := None |}
        | RunPanic site =>
          {| b_status := ExitFailure; b_reports := b_reports st ++ [rp];
             b_fs := fs_write out Torn (b_fs st); b_used := us; b_aborted := Some site |}
        end
    end
  end.

Definition run_batch (keep : bool) (files : list (bytes * bytes)) (f : fs) (inputs : list input) : batch_state :=
  fold_left (batch_step keep files) inputs (batch_init f).
