(** The pipeline with its output going through a fallible writer (C19).

    src/program.rs add_expr: `wr.write_packet(self.now, pkt)?` per packet; src/cli.rs process_file:
    File::open(inp)?, PcapWriter::create(out)?, the line loop, `prog.flush()` at the end; whatever the
    result, the writer is dropped when process_file returns (BufWriter's Drop flushes and discards the
    error).  The interpreter itself (evaluation, clock, registers) is the one of Interp/Eval.v; only
    the statements that touch the writer are restated here, with the writer state threaded through.

    The writer is a parameter ([put] = one write_all of a record, [fin] = the explicit flush), so that
    the same text gives (i) the real thing, BufWriter over the file with a failure point
    ([process_file_io], [compile_with_faults]), and (ii) a recorder that never fails and lists the
    records with the location current at each write ([trace_file]); Proofs/C19/Pipeline.v shows that
    (i) is (ii) replayed through the BufWriter.  No proofs here. *)
From RS Require Import Base.Bytes Base.Outcome Base.Utf8 Bind.Types Pkt.Packet Pkt.Pcap
  Lex.Tokens Lex.Scanner Parse.Automaton Interp.Val Interp.Ast Interp.Eval Interp.Cli Interp.Io Lib.LibBase.
Open Scope N_scope.

(** a result of the interpreter together with the writer; [WWriteErr]: write_packet returned an
    io::Error (propagated by `?` as Error::IoError) *)
Inductive wres (S A : Type) :=
| WOk (a : A) (p : prog) (w : S)
| WErr (e : error) (p : prog) (w : S)
| WWriteErr (p : prog) (w : S)
| WPanic (s : string) (p : prog) (w : S).
Arguments WOk {S A}. Arguments WErr {S A}. Arguments WWriteErr {S A}. Arguments WPanic {S A}.

Definition wlift {S A} (r : res A) (w : S) : wres S A :=
  match r with ROk a p => WOk a p w | RErr e p => WErr e p w | RPanic s p => WPanic s p w end.

Inductive io_cli_result (S : Type) :=
| IcOk (p : prog) (w : S)                          (* process_file returned Ok(()) *)
| IcErr (e : error) (at_loc : loc) (p : prog) (w : S)
| IcWriteErr (at_loc : loc) (p : prog) (w : S)     (* an io::Error of the writer *)
| IcPanic (site : string) (p : prog) (w : S).
Arguments IcOk {S}. Arguments IcErr {S}. Arguments IcWriteErr {S}. Arguments IcPanic {S}.

Section IoInterp.
Variable functions : list funcdef.
Variable classes : list (string * list (string * string)).
Variable modules : list (string * list (string * symbol)).
Variable exec : string -> option nat -> list val -> list val -> heap -> option libres.
Variable S : Type.                                        (* the writer *)
Variable put : S -> loc -> bytes -> outcome unit * S.     (* write_all of one record; the location is Program::loc *)
Variable fin : S -> outcome unit * S.                     (* flush *)

Notation eval := (eval functions classes modules exec).
Notation add_stmt := (add_stmt functions classes modules exec).

(** the loop `for pkt in inner { wr.write_packet(self.now, pkt)?; }`; [p_out] records every chunk
    handed to the writer, including one whose write failed *)
Fixpoint write_all_io (p : prog) (w : S) (ps : list packet) : wres S unit :=
  match ps with
  | [] => WOk tt p w
  | k :: r =>
    match write_packet (p_now p) k with
    | Ok (b, _) =>
      let p' := add_out p b in
      match put w (p_loc p) b with
      | (Ok _, w') => write_all_io p' w' r
      | (OutOfFuel, w') => WPanic "model: out of fuel" p' w'
      | (_, w') => WWriteErr p' w'
      end
    | Err e => WErr e p w
    | Panic s => WPanic s p w
    | OutOfFuel => WPanic "out of fuel" p w
    end
  end.

Definition emit_val_io (p : prog) (w : S) (v : val) : wres S unit :=
  match v with
  | VNil => WOk tt p w
  | VPkt k =>
    match update_time p (pkt_bit_time k) with
    | ROk _ p' => write_all_io p' w [k]
    | r => wlift r w
    end
  | VPktGen ks =>
    match advance_all p ks with
    | ROk _ p' => write_all_io p' w ks
    | r => wlift r w
    end
  | VTimeJump ns => wlift (update_time p ns) w
  | _ => WOk tt (add_warning p) w
  end.

Definition add_stmt_io (p : prog) (w : S) (s : stmt) : wres S unit :=
  match s with
  | SExpr e =>
    match eval p e with
    | ROk v p' => emit_val_io p' w v
    | RErr e' p' => WErr e' p' w
    | RPanic s' p' => WPanic s' p' w
    end
  | _ => wlift (add_stmt p s) w
  end.

Fixpoint add_stmts_io (p : prog) (w : S) (ss : list stmt) : wres S unit :=
  match ss with
  | [] => WOk tt p w
  | s :: r =>
    match add_stmt_io p w s with
    | WOk _ p' w' => add_stmts_io p' w' r
    | x => x
    end
  end.

Definition run_stmts_io (p : prog) (w : S) (ss : list stmt) (k : prog -> S -> io_cli_result S) : io_cli_result S :=
  match add_stmts_io p w ss with
  | WOk _ p' w' => k p' w'
  | WErr e p' w' => IcErr e (p_loc p') p' w'
  | WWriteErr p' w' => IcWriteErr (p_loc p') p' w'
  | WPanic s p' w' => IcPanic s p' w'
  end.

(** `if let Err(err) = prog.flush() { return Err(ErrorLoc::new(Loc::nil(), err)); } Ok(())` *)
Definition final_flush (p : prog) (w : S) : io_cli_result S :=
  match fin w with
  | (Ok _, w') => IcOk p w'
  | (OutOfFuel, w') => IcPanic "model: out of fuel" p w'
  | (_, w') => IcWriteErr nil_loc p w'
  end.

(** Cli.process_lines with the writer *)
Fixpoint process_lines_io (lno : N) (lines : list bytes) (lx : lexer) (ps : parser) (p : prog) (w : S)
  : io_cli_result S :=
  match lines with
  | [] =>
    match feed ps eof_token with
    | Ok ps' => let (ss, _) := get_results ps' in run_stmts_io p w ss final_flush
    | Err e => IcErr e (lx_loc lx) p w
    | Panic s => IcPanic s p w
    | OutOfFuel => IcPanic "parser fuel" p w
    end
  | line :: rest =>
    if negb (utf8_valid line) then IcErr EIo nil_loc p w
    else
      let (lx', toks) := lex_line lx lno line in
      match toks with
      | Err e => IcErr e (lx_loc lx') p w
      | Panic s => IcPanic s p w
      | OutOfFuel => IcPanic "lexer fuel" p w
      | Ok ts =>
        match feed_line ps ts with
        | inr (e, l) => IcErr e l p w
        | inl (Panic s) => IcPanic s p w
        | inl OutOfFuel => IcPanic "parser fuel" p w
        | inl (Err e) => IcErr e nil_loc p w
        | inl (Ok ps') =>
          let (ss, ps'') := get_results ps' in
          run_stmts_io p w ss (fun p' w' => process_lines_io (lno + 1) rest lx' ps'' p' w')
        end
      end
  end.

(** the input as the file system presents it *)
Inductive input_state :=
| InNoOpen                 (* File::open(inp) fails: missing, name too long, ... *)
| InUnreadable             (* open succeeds but the first read fails (the path is a directory: EISDIR) *)
| InSrc (src : bytes).

(** from the point where the writer exists *)
Definition process_input (input : input_state) (w0 : S) : io_cli_result S :=
  match input with
  | InSrc src => process_lines_io 1 (split_lines src) lexer_init parser_init prog_init w0
  | _ => IcErr EIo nil_loc prog_init w0
  end.

End IoInterp.

(** outcome of process_file for one input: the status, the content of the output path after the
    writer is gone (None: never created), and whether the failure came from the writer; resynth()
    turns it into the printed lines, the exit status and the removal of the output ([cli_report]) *)
Definition verdict := (status * option bytes * bool)%type.
Definition report_of_verdict (keep : bool) (v : verdict) : report * bool :=
  let '(st, f, wf) := v in (cli_report keep st f, wf).

(** ** (i) the BufWriter over the file with a failure point *)
Section Faulty.
Variable functions : list funcdef.
Variable classes : list (string * list (string * string)).
Variable modules : list (string * list (string * symbol)).
Variable exec : string -> option nat -> list val -> list val -> heap -> option libres.
Variable cap : N.
Variable limit : option N.

Definition bw_put (w : bufw) (_ : loc) (b : bytes) : outcome unit * bufw := bw_write_all cap limit w b.

Inductive pf_result :=
| PfNoInput                (* process_file returned before creating the output *)
| PfNoCreate               (* PcapWriter::create: File::create failed *)
| PfRun (r : io_cli_result bufw).

Definition process_file_io (create_ok : bool) (input : input_state) : pf_result :=
  match input with
  | InNoOpen => PfNoInput
  | _ =>
    if negb create_ok then PfNoCreate
    else
      match pw_create cap limit with
      | (Ok _, w0) => PfRun (process_input functions classes modules exec bufw bw_put (bw_flush limit) input w0)
      | (OutOfFuel, w0) => PfRun (IcPanic "model: out of fuel" prog_init w0)
      | (_, w0) => PfRun (IcWriteErr nil_loc prog_init w0)
      end
  end.

(** what process_file returned and what the output path holds once the writer has been dropped; the
    flag tells whether the failure came from the writer *)
Definition verdict_of_run (r : io_cli_result bufw) : verdict :=
  match r with
  | IcOk p w => (StOk, Some (bw_file (bw_drop limit w)), false)
  | IcErr e l p w => (StErr l e, Some (bw_file (bw_drop limit w)), false)
  | IcWriteErr l p w => (StErr l EIo, Some (bw_file (bw_drop limit w)), true)
  | IcPanic s p w => (StPanic s, Some (bw_file (bw_drop limit w)), false)
  end.

Definition verdict_of_pf (r : pf_result) : verdict :=
  match r with
  | PfNoInput | PfNoCreate => (StErr nil_loc EIo, None, false)
  | PfRun r => verdict_of_run r
  end.

End Faulty.

(** ** (ii) the recorder: every record with the location current when it is written, oldest first
    after [rev]; it never fails *)
Definition event := (loc * bytes)%type.
Definition rec_put (s : list event) (l : loc) (b : bytes) : outcome unit * list event := (Ok tt, (l, b) :: s).
Definition rec_fin (s : list event) : outcome unit * list event := (Ok tt, s).

(** how the fault-free run ends *)
Inductive trace_end :=
| TeOk                                  (* end of input: the explicit flush follows *)
| TeErr (e : error) (at_loc : loc)
| TePanic (site : string).

Definition trace_of (r : io_cli_result (list event)) : list event * trace_end :=
  match r with
  | IcOk _ s => (rev s, TeOk)
  | IcErr e l _ s => (rev s, TeErr e l)
  | IcWriteErr l _ s => (rev s, TeErr EIo l)       (* not produced by the recorder *)
  | IcPanic site _ s => (rev s, TePanic site)
  end.

(** ** replaying a trace through the BufWriter *)
Section Replay.
Variable cap : N.
Variable limit : option N.

(** [inl w]: every record written; [inr (l, w)]: the write of a record with location l failed *)
Fixpoint replay_events (w : bufw) (evs : list event) : bufw + (loc * bufw) + bufw :=
  match evs with
  | [] => inl (inl w)
  | (l, b) :: r =>
    match bw_write_all cap limit w b with
    | (Ok _, w') => replay_events w' r
    | (OutOfFuel, w') => inr w'
    | (_, w') => inl (inr (l, w'))
    end
  end.

Definition replay_run (w0 : bufw) (t : list event * trace_end) : verdict :=
  let file w := Some (bw_file (bw_drop limit w)) in
  match replay_events w0 (fst t) with
  | inl (inl w) =>
    match snd t with
    | TeOk =>
      match bw_flush limit w with
      | (Ok _, w') => (StOk, file w', false)
      | (OutOfFuel, w') => (StPanic "model: out of fuel", file w', false)
      | (_, w') => (StErr nil_loc EIo, file w', true)
      end
    | TeErr e l => (StErr l e, file w, false)
    | TePanic s => (StPanic s, file w, false)
    end
  | inl (inr (l, w)) => (StErr l EIo, file w, true)
  | inr w => (StPanic "model: out of fuel", file w, false)
  end.

(** the verdict for a run whose fault-free trace is [t] (None: the input could not be opened) *)
Definition replay_file (create_ok : bool) (t : option (list event * trace_end)) : verdict :=
  match t with
  | None => (StErr nil_loc EIo, None, false)
  | Some t =>
    if negb create_ok then (StErr nil_loc EIo, None, false)
    else
      match pw_create cap limit with
      | (Ok _, w0) => replay_run w0 t
      | (OutOfFuel, w0) => (StPanic "model: out of fuel", Some (bw_file (bw_drop limit w0)), false)
      | (_, w0) => (StErr nil_loc EIo, Some (bw_file (bw_drop limit w0)), true)
      end
  end.

End Replay.

(** The model instantiated with the concrete library, BufWriter::new's capacity, and the CLI layer:
    source bytes, data files, a creation result and a failure point in; the report out. *)
From RS Require Import Lib.StdLib.
From RSGen Require Import Catalogue.

Definition compile_with_faults (keep : bool) (limit : option N) (create_ok : bool)
    (files : list (bytes * bytes)) (input : input_state) : report * bool :=
  report_of_verdict keep (verdict_of_pf limit
    (process_file_io catalogue class_table module_table (exec {| env_files := files |}) CAP limit create_ok input)).

(** the fault-free trace of an input (None: it cannot be opened) ... *)
Definition trace_file (files : list (bytes * bytes)) (input : input_state) : option (list event * trace_end) :=
  match input with
  | InNoOpen => None
  | _ => Some (trace_of (process_input catalogue class_table module_table (exec {| env_files := files |})
                                      (list event) rec_put rec_fin input []))
  end.

(** ... and the same report computed from it (Proofs/C19/Pipeline.v: equal to compile_with_faults) *)
Definition compile_via_trace (keep : bool) (limit : option N) (create_ok : bool)
    (files : list (bytes * bytes)) (input : input_state) : report * bool :=
  report_of_verdict keep (replay_file CAP limit create_ok (trace_file files input)).
