(** src/program.rs: the interpreter. *)
From RS Require Import Base.Bytes Base.Outcome Bind.Types Bind.Binder Pkt.Packet Pkt.Pcap
  Interp.Val Interp.Ast Lib.LibBase.
Open Scope N_scope.

Record prog := {
  p_now : N;
  p_regs : list (string * val);
  p_imports : list (string * string);
  p_heap : heap;
  p_out : list bytes;          (* record chunks written so far, most recent first *)
  p_loc : loc;
  p_warnings : list loc;
  p_trace : list string        (* library calls made, most recent first *)
}.

Definition prog_init : prog :=
  {| p_now := 0; p_regs := []; p_imports := []; p_heap := []; p_out := []; p_loc := (0, 0);
     p_warnings := []; p_trace := [] |}.

Definition set_loc p l := {| p_now := p_now p; p_regs := p_regs p; p_imports := p_imports p; p_heap := p_heap p; p_out := p_out p; p_loc := l; p_warnings := p_warnings p; p_trace := p_trace p |}.
Definition set_heap p h := {| p_now := p_now p; p_regs := p_regs p; p_imports := p_imports p; p_heap := h; p_out := p_out p; p_loc := p_loc p; p_warnings := p_warnings p; p_trace := p_trace p |}.
Definition set_now p t := {| p_now := t; p_regs := p_regs p; p_imports := p_imports p; p_heap := p_heap p; p_out := p_out p; p_loc := p_loc p; p_warnings := p_warnings p; p_trace := p_trace p |}.
Definition add_out p b := {| p_now := p_now p; p_regs := p_regs p; p_imports := p_imports p; p_heap := p_heap p; p_out := b :: p_out p; p_loc := p_loc p; p_warnings := p_warnings p; p_trace := p_trace p |}.
Definition add_trace p k := {| p_now := p_now p; p_regs := p_regs p; p_imports := p_imports p; p_heap := p_heap p; p_out := p_out p; p_loc := p_loc p; p_warnings := p_warnings p; p_trace := k :: p_trace p |}.
Definition add_warning p := {| p_now := p_now p; p_regs := p_regs p; p_imports := p_imports p; p_heap := p_heap p; p_out := p_out p; p_loc := p_loc p; p_warnings := p_loc p :: p_warnings p; p_trace := p_trace p |}.

(** A failed evaluation keeps the program state it reached (the CLI reports [p_loc]). *)
Inductive res (A : Type) := ROk (a : A) (p : prog) | RErr (e : error) (p : prog) | RPanic (s : string) (p : prog).
Arguments ROk {A}. Arguments RErr {A}. Arguments RPanic {A}.

Definition rbind {A B} (x : res A) (f : A -> prog -> res B) : res B :=
  match x with ROk a p => f a p | RErr e p => RErr e p | RPanic s p => RPanic s p end.
Definition lift {A} (p : prog) (x : outcome A) : res A :=
  match x with Ok a => ROk a p | Err e => RErr e p | Panic s => RPanic s p | OutOfFuel => RPanic "out of fuel" p end.

Section Interp.
(** the library the interpreter runs against *)
Variable functions : list funcdef.
Variable classes : list (string * list (string * string)).
Variable modules : list (string * list (string * symbol)).
Variable exec : string -> option nat -> list val -> list val -> heap -> option libres.

Definition find_func (key : string) : option funcdef :=
  find (fun f => String.eqb (fd_key f) key) functions.

(** eval_extern_ref *)
Fixpoint walk_modules (path : string) (ms : list string) : outcome string :=
  match ms with
  | [] => Ok path
  | c :: r =>
    match assoc path modules with
    | None => Panic "module table: unknown module path"
    | Some syms =>
      match assoc c syms with
      | Some (SModule child) => walk_modules child r
      | None => Err EName
      | Some _ => Err EType
      end
    end
  end.

Definition eval_extern_ref (p : prog) (ms comps : list string) : outcome val :=
  match ms with
  | [] => Panic "program.rs eval_extern_ref: modules[0]"
  | top :: rest =>
    match assoc top (p_imports p) with
    | None => Err EName
    | Some path0 =>
      do path <- walk_modules path0 rest;
      match comps with
      | [] => Panic "program.rs eval_extern_ref: components[0]"
      | topvar :: more =>
        match assoc path modules with
        | None => Panic "module table: unknown module path"
        | Some syms =>
          do v <- match assoc topvar syms with
                  | Some (SVal d) => Ok (val_of_valdef d)
                  | Some (SFunc k) => Ok (VFunc k)
                  | Some (SModule _) => Err EType
                  | Some (SClass _) => Err EType
                  | None => Err EName
                  end;
          match more with
          | [] => Ok v
          | _ => Err EType
          end
        end
      end
    end
  end.

(** Val::method_lookup *)
Definition method_lookup (p : prog) (v : val) (name : string) : outcome val :=
  match v with
  | VObj addr =>
    match nth_error (p_heap p) addr with
    | None => Panic "dangling object reference"
    | Some o =>
      match assoc (obj_class o) classes with
      | None => Panic "class table: unknown class"
      | Some ms => match assoc name ms with
                   | Some key => Ok (VMethod addr key)
                   | None => Err EName
                   end
      end
    end
  | _ => Err EType
  end.

Definition eval_local_ref (p : prog) (comps : list string) : outcome val :=
  if Nat.ltb 2 (length comps) then Err EName
  else match comps with
       | [] => Panic "program.rs eval_local_ref: components[0]"
       | var :: more =>
         match assoc var (p_regs p) with
         | None => Err EName
         | Some v => match more with
                     | [] => Ok v
                     | m :: _ => method_lookup p v m
                     end
         end
       end.

Definition eval_obj_ref (p : prog) (ms comps : list string) : outcome val :=
  match ms with
  | _ :: _ => eval_extern_ref p ms comps
  | [] => match comps with
          | _ :: _ => eval_local_ref p comps
          | [] => Panic "program.rs eval_obj_ref: unreachable"
          end
  end.

(** eval_callable after the arguments have been evaluated *)
Definition call (p : prog) (key : string) (this : option nat) (argvals : list (option string * val)) : res val :=
  match find_func key with
  | None => RPanic "function table: unknown function" p
  | Some f =>
    rbind (lift p (argvec val val_type val_of_valdef f argvals)) (fun '(slots, extra) p =>
    match exec key this slots extra (p_heap p) with
    | None => RPanic "model: library function not modelled" p
    | Some r =>
      rbind (lift (add_trace p key) r) (fun '(v, h) p =>
      if vtype_eqb (val_type v) (fd_ret f) then ROk v (set_heap p h)
      else RPanic "program.rs debug_assert!(ret.val_type() == func.return_type)" (set_heap p h))
    end)
  end.

Fixpoint eval (p : prog) (e : expr) {struct e} : res val :=
  match e with
  | ENil => ROk VNil p
  | ELit l v => ROk v (set_loc p l)
  | ERef l ms comps =>
    let p := set_loc p l in lift p (eval_obj_ref p ms comps)
  | ECall l ms comps args =>
    let p := set_loc p l in
    rbind (lift p (eval_obj_ref p ms comps)) (fun callee p =>
    let eval_args := fix eval_args (p : prog) (l : list (option string * expr)) : res (list (option string * val)) :=
      match l with
      | [] => ROk [] p
      | (n, a) :: r => rbind (eval p a) (fun v p => rbind (eval_args p r) (fun vs p => ROk ((n, v) :: vs) p))
      end in
    match callee with
    | VFunc key => rbind (eval_args p args) (fun vs p => call p key None vs)
    | VMethod addr key => rbind (eval_args p args) (fun vs p => call p key (Some addr) vs)
    | _ => RErr EType p
    end)
  | ESlash a b =>
    rbind (eval p a) (fun va p =>
    if negb (vtype_eqb (val_type va) TIp4) then RErr EType p
    else
      let a_loc := p_loc p in
      rbind (eval p b) (fun vb p =>
      if negb (is_integral (val_type vb)) then RErr EType p
      else
        let p := set_loc p a_loc in
        rbind (lift p (conv_ip4 va)) (fun ip p =>
        rbind (lift p (conv_int vb)) (fun port p =>
        if 65535 <? port then RErr EType p else ROk (VSock4 ip port) p))))
  end.

Definition update_time (p : prog) (ns : N) : res unit :=
  (* checked_add(..).ok_or(RuntimeError) *)
  if p_now p + ns <? two64 then ROk tt (set_now p (p_now p + ns)) else RErr ERuntime p.

Fixpoint advance_all (p : prog) (ps : list packet) : res unit :=
  match ps with
  | [] => ROk tt p
  | k :: r => rbind (update_time p (pkt_bit_time k)) (fun _ p => advance_all p r)
  end.

Fixpoint write_all (p : prog) (ps : list packet) : res unit :=
  match ps with
  | [] => ROk tt p
  | k :: r => rbind (lift p (write_packet (p_now p) k)) (fun '(b, _) p => write_all (add_out p b) r)
  end.

(** add_expr after evaluation: what an expression statement does with its value *)
Definition emit_val (p : prog) (v : val) : res unit :=
  match v with
  | VNil => ROk tt p
  | VPkt k => rbind (update_time p (pkt_bit_time k)) (fun _ p => write_all p [k])
  | VPktGen ks => rbind (advance_all p ks) (fun _ p => write_all p ks)
  | VTimeJump ns => update_time p ns
  | _ => ROk tt (add_warning p)
  end.

Definition add_stmt (p : prog) (s : stmt) : res unit :=
  match s with
  | SImport l name =>
    let p := set_loc p l in
    match assoc name (p_imports p) with
    | Some _ => ROk tt p
    | None =>
      match assoc EmptyString modules with
      | None => RPanic "module table: no root" p
      | Some syms =>
        match assoc name syms with
        | Some (SModule path) =>
          ROk tt {| p_now := p_now p; p_regs := p_regs p; p_imports := (name, path) :: p_imports p; p_heap := p_heap p; p_out := p_out p; p_loc := p_loc p; p_warnings := p_warnings p; p_trace := p_trace p |}
        | None => RErr (EImport name) p
        | Some _ => RPanic "stdlib/mod.rs toplevel_module: unreachable" p
        end
      end
    end
  | SAssign l target rv =>
    let p := set_loc p l in
    match assoc target (p_regs p) with
    | Some _ => RErr (EMultipleAssign target) p
    | None =>
      rbind (eval p rv) (fun v p =>
        ROk tt {| p_now := p_now p; p_regs := (target, v) :: p_regs p; p_imports := p_imports p; p_heap := p_heap p; p_out := p_out p; p_loc := p_loc p; p_warnings := p_warnings p; p_trace := p_trace p |})
    end
  | SExpr e =>
    rbind (eval p e) (fun v p => emit_val p v)
  end.

Fixpoint add_stmts (p : prog) (ss : list stmt) : res unit :=
  match ss with
  | [] => ROk tt p
  | s :: r => rbind (add_stmt p s) (fun _ p => add_stmts p r)
  end.

Definition pcap_of (p : prog) : bytes := pcap_ghdr ++ concat (frev (p_out p)).

End Interp.
