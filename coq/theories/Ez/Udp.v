(** ezpkt/src/udp4.rs: UdpDgram and UdpFlow; ezpkt/src/vxlan.rs. *)
From RS Require Import Base.Bytes Base.Outcome Pkt.Csum Pkt.Hdrs Pkt.Packet Ez.Tcp.

Open Scope N_scope.

Record udp_dgram := { ud_raw : bool; ud_eth : eth_hdr; ud_ip : ip_hdr; ud_udp : udp_hdr; ud_payload : bytes }.
Definition ud_with_eth d v := {| ud_raw := ud_raw d; ud_eth := v; ud_ip := ud_ip d; ud_udp := ud_udp d; ud_payload := ud_payload d |}.
Definition ud_with_ip d v := {| ud_raw := ud_raw d; ud_eth := ud_eth d; ud_ip := v; ud_udp := ud_udp d; ud_payload := ud_payload d |}.
Definition ud_with_udp d v := {| ud_raw := ud_raw d; ud_eth := ud_eth d; ud_ip := ud_ip d; ud_udp := v; ud_payload := ud_payload d |}.

(** UdpDgram::with_capacity(_, raw) *)
Definition udp_new (raw : bool) : udp_dgram :=
  {| ud_raw := raw; ud_eth := eth_with_proto ETH_IPV4;
     ud_ip := ip_calc_csum (ip_set_tot_len (ip_set_protocol ip_default PROTO_UDP) 28);
     ud_udp := udp_default; ud_payload := [] |}.

Definition udp_src d (s : sock) : udp_dgram :=
  let d1 := ud_with_eth d (eth_src_from_ip (ud_eth d) (fst s)) in
  let d2 := ud_with_ip d1 (ip_set_saddr (ud_ip d1) (fst s)) in
  ud_with_udp d2 {| uh_sport := snd s; uh_dport := uh_dport (ud_udp d2); uh_len := uh_len (ud_udp d2); uh_csum := uh_csum (ud_udp d2) |}.
Definition udp_dst d (s : sock) : udp_dgram :=
  let d1 := ud_with_eth d (eth_dst_from_ip (ud_eth d) (fst s)) in
  let d2 := ud_with_ip d1 (ip_set_daddr (ud_ip d1) (fst s)) in
  ud_with_udp d2 {| uh_sport := uh_sport (ud_udp d2); uh_dport := snd s; uh_len := uh_len (ud_udp d2); uh_csum := uh_csum (ud_udp d2) |}.
Definition udp_broadcast d := ud_with_eth d (eth_set_broadcast (ud_eth d)).
(** srcip / frag_off: header field then calc_csum *)
Definition udp_srcip d (a : N) := ud_with_ip d (ip_calc_csum (ip_set_saddr (ud_ip d) a)).
Definition udp_frag_off d (off : N) := ud_with_ip d (ip_calc_csum (ip_set_frag_off (ud_ip d) off)).

(** push(bytes): append, add_tot_len(len as u16).calc_csum(), add_len(len as u16) -- both wrapping *)
Definition udp_push d (b : bytes) : outcome udp_dgram :=
  let more := wrap16 (len b) in
  let t := wrap16 (ip_tot_len (ud_ip d) + more) in
  let l := wrap16 (uh_len (ud_udp d) + more) in
  Ok {| ud_raw := ud_raw d; ud_eth := ud_eth d;
        ud_ip := ip_calc_csum (ip_set_tot_len (ud_ip d) t);
        ud_udp := {| uh_sport := uh_sport (ud_udp d); uh_dport := uh_dport (ud_udp d); uh_len := l; uh_csum := uh_csum (ud_udp d) |};
        ud_payload := ud_payload d ++ b |}.

(** csum(): csum_len = (8 + payload) as u16; a computed 0 is transmitted as 0xffff (RFC 768) *)
Definition udp_csum d : outcome udp_dgram :=
  let iph := ud_ip d in
  let clen := wrap16 (8 + len (ud_payload d)) in
  let ph := csum_partial (pseudo_ser (ip_src iph) (ip_dst iph) (ip_proto iph) clen) in
  let uh := csum_partial (udp_ser (ud_udp d)) in
  let pl := csum_partial (ud_payload d) in
  do a <- cadd two32 "udp4.rs csum overflow" ph uh;
  do b <- cadd two32 "udp4.rs csum overflow" a pl;
  let c := csum_fold b in
  let c' := if c =? 0 then 65535 else c in
  Ok (ud_with_udp d {| uh_sport := uh_sport (ud_udp d); uh_dport := uh_dport (ud_udp d); uh_len := uh_len (ud_udp d); uh_csum := c' |}).

Definition udp_l4_bytes d : bytes := udp_ser (ud_udp d) ++ ud_payload d.
Definition udp_l3_bytes d : bytes := ip_ser (ud_ip d) ++ udp_l4_bytes d.
Definition udp_bytes d : bytes := if ud_raw d then udp_l3_bytes d else eth_ser (ud_eth d) ++ udp_l3_bytes d.
Definition udp_packet d : packet := pkt_of_body (udp_bytes d).

Record udp_flow := { uf_cl : sock; uf_sv : sock; uf_raw : bool }.
Definition uflow_client_dgram f b := udp_push (udp_dst (udp_src (udp_new (uf_raw f)) (uf_cl f)) (uf_sv f)) b.
Definition uflow_server_dgram f b := udp_push (udp_dst (udp_src (udp_new (uf_raw f)) (uf_sv f)) (uf_cl f)) b.

(* ---- VXLAN ---- *)
Record vxlan_flow := { vx_cl : sock; vx_sv : sock; vx_vni : N; vx_raw : bool }.
Definition vxlan_encap f (inner : bytes) : outcome packet :=
  do d1 <- udp_push (udp_dst (udp_src (udp_new (vx_raw f)) (vx_cl f)) (vx_sv f)) (vxlan_ser (vx_vni f));
  do d2 <- udp_push d1 inner;
  Ok (udp_packet d2).
