(** ezpkt/src/tcp4.rs: TcpSeg and TcpFlow. *)
From RS Require Import Base.Bytes Base.Outcome Pkt.Csum Pkt.Hdrs Pkt.Packet.

Open Scope N_scope.

Definition sock := (N * N)%type.   (* ip, port *)

Record tcp_seg := {
  ts_raw : bool; ts_eth : eth_hdr; ts_ip : ip_hdr; ts_tcp : tcp_hdr; ts_payload : bytes;
  ts_rcv_nxt : N; ts_data_len : N; ts_extra : N }.

Definition ts_with_ip s v := {| ts_raw := ts_raw s; ts_eth := ts_eth s; ts_ip := v; ts_tcp := ts_tcp s; ts_payload := ts_payload s; ts_rcv_nxt := ts_rcv_nxt s; ts_data_len := ts_data_len s; ts_extra := ts_extra s |}.
Definition ts_with_tcp s v := {| ts_raw := ts_raw s; ts_eth := ts_eth s; ts_ip := ts_ip s; ts_tcp := v; ts_payload := ts_payload s; ts_rcv_nxt := ts_rcv_nxt s; ts_data_len := ts_data_len s; ts_extra := ts_extra s |}.
Definition ts_with_extra s v := {| ts_raw := ts_raw s; ts_eth := ts_eth s; ts_ip := ts_ip s; ts_tcp := ts_tcp s; ts_payload := ts_payload s; ts_rcv_nxt := ts_rcv_nxt s; ts_data_len := ts_data_len s; ts_extra := v |}.

(** TcpSeg::new(src, dst, st, raw) *)
Definition seg_new (src dst : sock) (snd_nxt rcv_nxt : N) (raw : bool) : tcp_seg :=
  let iph := ip_calc_csum (ip_set_daddr (ip_set_saddr (ip_set_tot_len (ip_set_protocol ip_default PROTO_TCP) 40) (fst src)) (fst dst)) in
  {| ts_raw := raw;
     ts_eth := eth_new (mac_of_ip (fst src)) (mac_of_ip (fst dst)) ETH_IPV4;
     ts_ip := iph;
     ts_tcp := th_set_seq (tcp_new (snd src) (snd dst)) snd_nxt;
     ts_payload := []; ts_rcv_nxt := rcv_nxt; ts_data_len := 0; ts_extra := 0 |}.

Definition seg_syn s := ts_with_extra (ts_with_tcp s (th_or_flag (ts_tcp s) TCP_SYN)) (ts_extra s + 1).
Definition seg_rst s := ts_with_tcp s (th_or_flag (ts_tcp s) TCP_RST).
Definition seg_ack s := ts_with_tcp s (th_set_ack (ts_tcp s) (ts_rcv_nxt s)).
Definition seg_syn_ack s :=
  ts_with_extra (ts_with_tcp s (th_set_ack (th_or_flag (ts_tcp s) TCP_SYN) (ts_rcv_nxt s))) (ts_extra s + 1).
Definition seg_push s := seg_ack (ts_with_tcp s (th_or_flag (ts_tcp s) TCP_PSH)).
Definition seg_fin s := ts_with_extra (ts_with_tcp s (th_or_flag (ts_tcp s) TCP_FIN)) (ts_extra s + 1).
Definition seg_fin_ack s := seg_ack (seg_fin s).
Definition seg_frag_off s (off : N) := ts_with_ip s (ip_calc_csum (ip_set_frag_off (ts_ip s) off)).

(** update_tot_len(more: u16): add_tot_len is a wrapping u16 addition, then calc_csum *)
Definition seg_update_tot_len s (more : N) : outcome tcp_seg :=
  Ok (ts_with_ip s (ip_calc_csum (ip_set_tot_len (ts_ip s) (wrap16 (ip_tot_len (ts_ip s) + more))))).

(** append_data: data_len += len as u32 (checked), update_tot_len(len as u16) *)
Definition seg_append_data s (b : bytes) : outcome tcp_seg :=
  do dl <- cadd two32 "tcp4.rs data_len overflow" (ts_data_len s) (wrap32 (len b));
  let s1 := {| ts_raw := ts_raw s; ts_eth := ts_eth s; ts_ip := ts_ip s; ts_tcp := ts_tcp s;
               ts_payload := ts_payload s ++ b; ts_rcv_nxt := ts_rcv_nxt s;
               ts_data_len := dl; ts_extra := ts_extra s |} in
  seg_update_tot_len s1 (wrap16 (len b)).

Definition seg_push_bytes s b := seg_append_data (seg_push s) b.

(** csum_len = (data_len as usize + 20) as u16 *)
Definition seg_csum_len s : N := wrap16 (ts_data_len s + 20).

(** tcp_csum: pseudo header (from the IP header's addresses and protocol) + TCP header + payload *)
Definition seg_tcp_csum s : outcome tcp_seg :=
  let iph := ts_ip s in
  let ph := csum_partial (pseudo_ser (ip_src iph) (ip_dst iph) (ip_proto iph) (seg_csum_len s)) in
  let th := csum_partial (tcp_ser (ts_tcp s)) in
  let pl := csum_partial (takeN (ts_data_len s) (ts_payload s)) in
  do a <- cadd two32 "tcp4.rs tcp_csum overflow" ph th;
  do b <- cadd two32 "tcp4.rs tcp_csum overflow" a pl;
  Ok (ts_with_tcp s (th_set_csum (ts_tcp s) (csum_fold b))).

Definition seg_seq_consumed s : outcome N :=
  cadd two32 "tcp4.rs seq_consumed overflow" (ts_data_len s) (ts_extra s).

Definition seg_l3_bytes s : bytes := ip_ser (ts_ip s) ++ tcp_ser (ts_tcp s) ++ ts_payload s.
Definition seg_bytes s : bytes :=
  if ts_raw s then seg_l3_bytes s else eth_ser (ts_eth s) ++ seg_l3_bytes s.
Definition seg_packet s : packet := pkt_of_body (seg_bytes s).
(** into_tcpseg: TCP header and payload *)
Definition seg_tcpseg s : bytes := tcp_ser (ts_tcp s) ++ ts_payload s.
Definition seg_tcp_hdr_bytes s : bytes := tcp_ser (ts_tcp s).

(* ---- TcpFlow ---- *)
Record tcp_flow := { tf_cl : sock; tf_sv : sock; tf_cl_seq : N; tf_sv_seq : N; tf_raw : bool }.
Definition tf_with_seqs f c s := {| tf_cl := tf_cl f; tf_sv := tf_sv f; tf_cl_seq := c; tf_sv_seq := s; tf_raw := tf_raw f |}.

Definition flow_cl f := seg_new (tf_cl f) (tf_sv f) (tf_cl_seq f) (tf_sv_seq f) (tf_raw f).
Definition flow_sv f := seg_new (tf_sv f) (tf_cl f) (tf_sv_seq f) (tf_cl_seq f) (tf_raw f).
(** cl_update / sv_update: wrapping u32 addition (sequence numbers wrap past 2^32) *)
Definition flow_cl_update f (b : N) := tf_with_seqs f (wrap32 (tf_cl_seq f + b)) (tf_sv_seq f).
Definition flow_sv_update f (b : N) := tf_with_seqs f (tf_cl_seq f) (wrap32 (tf_sv_seq f + b)).

Definition flow_cl_tx f (s : tcp_seg) : outcome (tcp_flow * packet) :=
  do n <- seg_seq_consumed s;
  do s' <- seg_tcp_csum s;
  Ok (flow_cl_update f n, seg_packet s').
Definition flow_sv_tx f (s : tcp_seg) : outcome (tcp_flow * packet) :=
  do n <- seg_seq_consumed s;
  do s' <- seg_tcp_csum s;
  Ok (flow_sv_update f n, seg_packet s').

(** push_state(cl_seq, sv_seq) / pop_state *)
Definition flow_push_state f (c s : option N) : tcp_flow * (option N * option N) :=
  let saved := (match c with Some _ => Some (tf_cl_seq f) | None => None end,
                match s with Some _ => Some (tf_sv_seq f) | None => None end) in
  (tf_with_seqs f (match c with Some v => v | None => tf_cl_seq f end)
                  (match s with Some v => v | None => tf_sv_seq f end), saved).
Definition flow_pop_state f (st : option N * option N) : tcp_flow :=
  tf_with_seqs f (match fst st with Some v => v | None => tf_cl_seq f end)
                 (match snd st with Some v => v | None => tf_sv_seq f end).

Definition flow_cl_seg f b off := seg_push_bytes (seg_frag_off (flow_cl f) off) b.
Definition flow_sv_seg f b off := seg_push_bytes (seg_frag_off (flow_sv f) off) b.

Definition flow_client_hole f (n : N) := flow_cl_update f n.
Definition flow_server_hole f (n : N) := flow_sv_update f n.

Definition flow_client_data_segment f b : outcome (tcp_flow * tcp_seg) :=
  do s <- flow_cl_seg f b 0;
  do n <- seg_seq_consumed s;
  do s' <- seg_tcp_csum s;
  Ok (flow_cl_update f n, s').
Definition flow_server_data_segment f b : outcome (tcp_flow * tcp_seg) :=
  do s <- flow_sv_seg f b 0;
  do n <- seg_seq_consumed s;
  do s' <- seg_tcp_csum s;
  Ok (flow_sv_update f n, s').

Definition flow_client_ack f : outcome tcp_seg := seg_tcp_csum (seg_ack (flow_cl f)).
Definition flow_server_ack f : outcome tcp_seg := seg_tcp_csum (seg_ack (flow_sv f)).

(** client_hdr(dlen): header of a PSH|ACK segment, then cl_update(seq_consumed + dlen) (checked +) *)
Definition flow_client_hdr f (dlen : N) : outcome (tcp_flow * bytes) :=
  let s := seg_push (flow_cl f) in
  do n <- seg_seq_consumed s;
  do m <- cadd two32 "tcp4.rs client_hdr overflow" n dlen;
  Ok (flow_cl_update f m, seg_tcp_hdr_bytes s).
Definition flow_server_hdr f (dlen : N) : outcome (tcp_flow * bytes) :=
  let s := seg_push (flow_sv f) in
  do n <- seg_seq_consumed s;
  do m <- cadd two32 "tcp4.rs server_hdr overflow" n dlen;
  Ok (flow_sv_update f m, seg_tcp_hdr_bytes s).

Definition flow_open f : outcome (tcp_flow * list packet) :=
  do (f1, p1) <- flow_cl_tx f (seg_syn (flow_cl f));
  do (f2, p2) <- flow_sv_tx f1 (seg_syn_ack (flow_sv f1));
  do (f3, p3) <- flow_cl_tx f2 (seg_ack (flow_cl f2));
  Ok (f3, [p1; p2; p3]).
Definition flow_client_close f : outcome (tcp_flow * list packet) :=
  do (f1, p1) <- flow_cl_tx f (seg_fin_ack (flow_cl f));
  do (f2, p2) <- flow_sv_tx f1 (seg_fin_ack (flow_sv f1));
  do (f3, p3) <- flow_cl_tx f2 (seg_ack (flow_cl f2));
  Ok (f3, [p1; p2; p3]).
Definition flow_server_close f : outcome (tcp_flow * list packet) :=
  do (f1, p1) <- flow_sv_tx f (seg_fin_ack (flow_sv f));
  do (f2, p2) <- flow_cl_tx f1 (seg_fin_ack (flow_cl f1));
  do (f3, p3) <- flow_sv_tx f2 (seg_ack (flow_sv f2));
  Ok (f3, [p1; p2; p3]).

(** client_reset / server_reset: a RST segment, checksummed *)
Definition flow_client_reset f : outcome packet :=
  do s <- seg_tcp_csum (seg_rst (flow_cl f)); Ok (seg_packet s).
Definition flow_server_reset f : outcome packet :=
  do s <- seg_tcp_csum (seg_rst (flow_sv f)); Ok (seg_packet s).

Definition flow_client_message f (b : bytes) (send_ack : bool) (off : N) : outcome (tcp_flow * list packet) :=
  do s <- flow_cl_seg f b off;
  do (f1, p1) <- flow_cl_tx f s;
  if send_ack then
    do (f2, p2) <- flow_sv_tx f1 (seg_ack (flow_sv f1));
    Ok (f2, [p1; p2])
  else Ok (f1, [p1]).
Definition flow_server_message f (b : bytes) (send_ack : bool) (off : N) : outcome (tcp_flow * list packet) :=
  do s <- flow_sv_seg f b off;
  do (f1, p1) <- flow_sv_tx f s;
  if send_ack then
    do (f2, p2) <- flow_cl_tx f1 (seg_ack (flow_cl f1));
    Ok (f2, [p1; p2])
  else Ok (f1, [p1]).
