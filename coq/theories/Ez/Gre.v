(** ezpkt/src/gre.rs, erspan1.rs, erspan2.rs *)
From RS Require Import Base.Bytes Base.Outcome Pkt.Csum Pkt.Hdrs Pkt.Packet.

Open Scope N_scope.

(** A GRE frame under construction: the IP header is kept apart, the rest is a byte string
    after the GRE header: [optional 4-byte seq] ++ pushed headers/payload. *)
Record gre_frame := { gr_raw : bool; gr_eth : eth_hdr; gr_ip : ip_hdr; gr_hdr : bytes;
                      gr_seq : option N; gr_rest : bytes }.

Definition gre_new (src dst : N) (flags : gre_flags) (proto : N) (raw : bool) : outcome gre_frame :=
  let iph := ip_calc_csum (ip_set_daddr (ip_set_saddr (ip_set_tot_len (ip_set_protocol ip_default PROTO_GRE) 24) src) dst) in
  let w := gre_flags_word flags in
  if negb (N.land w 4096 =? 0) then
    let t := wrap16 (ip_tot_len iph + 4) in
    Ok {| gr_raw := raw; gr_eth := eth_new (mac_of_ip src) (mac_of_ip dst) ETH_IPV4;
          gr_ip := ip_set_tot_len iph t; gr_hdr := gre_ser w proto; gr_seq := Some 0; gr_rest := [] |}
  else
    Ok {| gr_raw := raw; gr_eth := eth_new (mac_of_ip src) (mac_of_ip dst) ETH_IPV4;
          gr_ip := iph; gr_hdr := gre_ser w proto; gr_seq := None; gr_rest := [] |}.

(** push / set_hdr: append bytes, add_tot_len(len as u16) (checked), calc_csum *)
Definition gre_push (g : gre_frame) (b : bytes) : outcome gre_frame :=
  let t := wrap16 (ip_tot_len (gr_ip g) + wrap16 (len b)) in
  Ok {| gr_raw := gr_raw g; gr_eth := gr_eth g; gr_ip := ip_calc_csum (ip_set_tot_len (gr_ip g) t);
        gr_hdr := gr_hdr g; gr_seq := gr_seq g; gr_rest := gr_rest g ++ b |}.

(** seq(n): stores n in the sequence header when there is one *)
Definition gre_set_seq (g : gre_frame) (n : N) : gre_frame :=
  {| gr_raw := gr_raw g; gr_eth := gr_eth g; gr_ip := gr_ip g; gr_hdr := gr_hdr g;
     gr_seq := match gr_seq g with Some _ => Some n | None => None end; gr_rest := gr_rest g |}.

Definition gre_bytes (g : gre_frame) : bytes :=
  let l3 := ip_ser (gr_ip g) ++ gr_hdr g ++ (match gr_seq g with Some n => be32 n | None => [] end) ++ gr_rest g in
  if gr_raw g then l3 else eth_ser (gr_eth g) ++ l3.
Definition gre_packet g := pkt_of_body (gre_bytes g).

Record gre_flow := { gl_cl : N; gl_sv : N; gl_flags : gre_flags; gl_ethertype : N; gl_raw : bool; gl_seq : N }.
Definition gre_flow_encap (f : gre_flow) (b : bytes) : outcome (gre_flow * packet) :=
  do g <- gre_new (gl_cl f) (gl_sv f) (gl_flags f) (gl_ethertype f) (gl_raw f);
  let n := wrap32 (gl_seq f + 1) in
  do g' <- gre_push (gre_set_seq g (gl_seq f)) b;
  Ok ({| gl_cl := gl_cl f; gl_sv := gl_sv f; gl_flags := gl_flags f; gl_ethertype := gl_ethertype f;
         gl_raw := gl_raw f; gl_seq := n |}, gre_packet g').

Record erspan1_flow := { e1_cl : N; e1_sv : N; e1_raw : bool }.
Definition erspan1_encap (f : erspan1_flow) (b : bytes) : outcome packet :=
  do g <- gre_new (e1_cl f) (e1_sv f) gre_flags_default ETH_ERSPAN_1_2 (e1_raw f);
  do g' <- gre_push g b;
  Ok (gre_packet g').

Record erspan2_flow := { e2_cl : N; e2_sv : N; e2_raw : bool; e2_seq : N; e2_sess : N }.
Definition erspan2_encap (f : erspan2_flow) (b : bytes) (port_index : N) : outcome (erspan2_flow * packet) :=
  let n := wrap32 (e2_seq f + 1) in
  do g <- gre_new (e2_cl f) (e2_sv f) (gre_flags_seq gre_flags_default true) ETH_ERSPAN_1_2 (e2_raw f);
  do g1 <- gre_push (gre_set_seq g (e2_seq f)) (erspan2_ser (e2_sess f) port_index);
  do g2 <- gre_push g1 b;
  Ok ({| e2_cl := e2_cl f; e2_sv := e2_sv f; e2_raw := e2_raw f; e2_seq := n; e2_sess := e2_sess f |},
      gre_packet g2).
