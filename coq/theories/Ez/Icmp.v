(** ezpkt/src/icmp4.rs *)
From RS Require Import Base.Bytes Base.Outcome Pkt.Csum Pkt.Hdrs Pkt.Packet.

Open Scope N_scope.

Record icmp_flow := { if_cl : N; if_sv : N; if_raw : bool; if_id : N; if_ping : N; if_pong : N }.
Definition icmp_flow_new cl sv raw :=
  {| if_cl := cl; if_sv := sv; if_raw := raw; if_id := 4660; if_ping := 0; if_pong := 0 |}.

(** IcmpDgram::new(src,dst,raw).ping/pong(id, seq, bytes) *)
Definition icmp_dgram (src dst : N) (raw : bool) (typ id seq : N) (b : bytes) : outcome packet :=
  let iph0 := ip_calc_csum (ip_set_daddr (ip_set_saddr (ip_set_tot_len (ip_set_protocol ip_default PROTO_ICMP) 28) src) dst) in
  let t := wrap16 (ip_tot_len iph0 + wrap16 (len b)) in
  let iph := ip_calc_csum (ip_set_tot_len iph0 t) in
  let h0 := {| ic_typ := typ; ic_code := 0; ic_csum := 0; ic_id := id; ic_seq := seq |} in
  let c := ip_checksum (icmp_ser h0 ++ b) in
  let h := {| ic_typ := typ; ic_code := 0; ic_csum := c; ic_id := id; ic_seq := seq |} in
  let l3 := ip_ser iph ++ icmp_ser h ++ b in
  Ok (pkt_of_body (if raw then l3 else eth_ser (eth_new (mac_of_ip src) (mac_of_ip dst) ETH_IPV4) ++ l3)).

Definition icmp_echo f (b : bytes) : outcome (icmp_flow * packet) :=
  do p <- icmp_dgram (if_cl f) (if_sv f) (if_raw f) ICMP_ECHO (if_id f) (if_ping f) b;
  let n := wrap16 (if_ping f + 1) in
  Ok ({| if_cl := if_cl f; if_sv := if_sv f; if_raw := if_raw f; if_id := if_id f; if_ping := n; if_pong := if_pong f |}, p).
Definition icmp_echo_reply f (b : bytes) : outcome (icmp_flow * packet) :=
  do p <- icmp_dgram (if_sv f) (if_cl f) (if_raw f) ICMP_ECHOREPLY (if_id f) (if_pong f) b;
  let n := wrap16 (if_pong f + 1) in
  Ok ({| if_cl := if_cl f; if_sv := if_sv f; if_raw := if_raw f; if_id := if_id f; if_ping := if_ping f; if_pong := n |}, p).
