(** ezpkt/src/ip4.rs: IpDgram and IpFrag *)
From RS Require Import Base.Bytes Base.Outcome Pkt.Csum Pkt.Hdrs Pkt.Packet.

Open Scope N_scope.

(** IpDgram::new(iph, payload, raw).frag(frag_off, mf) *)
Definition ipdgram (iph : ip_hdr) (payload : bytes) (raw : bool) (off : N) (mf : bool) : outcome packet :=
  let t := wrap16 (wrap16 (len payload) + 20) in
  let h := ip_calc_csum (ip_set_mf (ip_set_frag_off (ip_set_tot_len iph t) off) mf) in
  let l3 := ip_ser h ++ payload in
  Ok (pkt_of_body (if raw then l3
                   else eth_ser (eth_new (mac_of_ip (ip_src iph)) (mac_of_ip (ip_dst iph)) ETH_IPV4) ++ l3)).

Record ip_frag := { fr_hdr : ip_hdr; fr_payload : bytes }.

(** fragment(off, len, raw): off in 8-byte blocks, len in 8-byte blocks; the slice is clamped to the payload *)
Definition frag_fragment (f : ip_frag) (off l : N) (raw : bool) : outcome packet :=
  let plen := len (fr_payload f) in
  let byte_off := off * 8 in
  let byte_end := byte_off + l * 8 in
  let e := N.min byte_end plen in
  let s := N.min byte_off e in
  let content := takeN (e - s) (dropN s (fr_payload f)) in
  ipdgram (fr_hdr f) content raw off (negb (e =? plen)).

Definition frag_tail (f : ip_frag) (off : N) (raw : bool) : outcome packet :=
  frag_fragment f off (wrap16 (len (fr_payload f))) raw.

Definition frag_datagram (f : ip_frag) (raw : bool) : outcome packet :=
  ipdgram (fr_hdr f) (fr_payload f) raw 0 false.
