(** src/libapi.rs: FuncDef::split_args and FuncDef::argvec, over an arbitrary value type. *)
From RS Require Import Base.Bytes Base.Outcome Bind.Types.

Section Binder.
Variable V : Type.
Variable type_of : V -> vtype.
Variable of_valdef : valdef -> V.

Definition argspec := (option string * V)%type.

Record argprep := { ap_pos : list V; ap_named : list (string * V); ap_extra : list V }.

Inductive bstate := SAnon | SOptional | SCollectOnly.

Definition step_collect (f : funcdef) (a : argspec) (p : argprep) : outcome (bstate * argprep) :=
  if negb (fd_is_collect f) then Err EType
  else match fst a with
       | Some _ => Err EType
       | None => Ok (SCollectOnly, {| ap_pos := ap_pos p; ap_named := ap_named p; ap_extra := ap_extra p ++ [snd a] |})
       end.

Definition step_optional (f : funcdef) (a : argspec) (p : argprep) : outcome (bstate * argprep) :=
  match fst a with
  | None => step_collect f a p
  | Some name =>
    match fd_arg_pos_of f name with
    | None => Err EType
    | Some idx =>
      if Nat.ltb idx (length (ap_pos p)) then Err EType
      else match assoc name (ap_named p) with
           | Some _ => Err EType
           | None => Ok (SOptional, {| ap_pos := ap_pos p; ap_named := ap_named p ++ [(name, snd a)]; ap_extra := ap_extra p |})
           end
    end
  end.

Definition step_anon (f : funcdef) (a : argspec) (p : argprep) : outcome (bstate * argprep) :=
  match fst a with
  | Some _ => step_optional f a p
  | None =>
    if fd_is_collect f && Nat.leb (fd_min_args f) (length (ap_pos p)) then step_collect f a p
    else if Nat.leb (length (fd_args f)) (length (ap_pos p)) then
      (if fd_is_collect f then step_collect f a p else Err EType)
    else Ok (SAnon, {| ap_pos := ap_pos p ++ [snd a]; ap_named := ap_named p; ap_extra := ap_extra p |})
  end.

Definition step (f : funcdef) (st : bstate) (a : argspec) (p : argprep) : outcome (bstate * argprep) :=
  match st with
  | SAnon => step_anon f a p
  | SOptional => step_optional f a p
  | SCollectOnly => step_collect f a p
  end.

Fixpoint split_loop (f : funcdef) (st : bstate) (args : list argspec) (p : argprep) : outcome argprep :=
  match args with
  | [] => Ok p
  | a :: r => do (st', p') <- step f st a p; split_loop f st' r p'
  end.

Definition split_args (f : funcdef) (args : list argspec) : outcome argprep :=
  split_loop f SAnon args {| ap_pos := []; ap_named := []; ap_extra := [] |}.

Fixpoint remove_named (name : string) (l : list (string * V)) : list (string * V) :=
  match l with
  | [] => []
  | (k, v) :: r => if String.eqb name k then r else (k, v) :: remove_named name r
  end.

(** step 2 of argvec: named positionals / optionals, defaults *)
Fixpoint fill (decls : list (string * argdecl)) (named : list (string * V)) (acc : list V)
  : outcome (list V * list (string * V)) :=
  match decls with
  | [] => Ok (acc, named)
  | (name, d) :: r =>
    match assoc name named with
    | Some v => fill r (remove_named name named) (acc ++ [v])
    | None =>
      match d with
      | Optional dfl => fill r named (acc ++ [of_valdef dfl])
      | Positional _ => Err EType
      end
    end
  end.

Fixpoint typecheck (decls : list (string * argdecl)) (args : list V) : bool :=
  match decls, args with
  | (_, d) :: dr, a :: ar =>
    (match d with
     | Positional t => compatible_with t (type_of a)
     | Optional dfl => arg_compatible dfl (type_of a)
     end) && typecheck dr ar
  | _, _ => true
  end.

Definition argvec (f : funcdef) (args : list argspec) : outcome (list V * list V) :=
  do p <- split_args f args;
  let nr_pos := length (ap_pos p) in
  let nr_specified := (nr_pos + length (ap_named p))%nat in
  if Nat.ltb nr_specified (fd_min_args f) then Err EType
  else
    do (slots, leftover) <- fill (skipn nr_pos (fd_args f)) (ap_named p) (ap_pos p);
    match leftover with
    | _ :: _ => Panic "libapi.rs assert!(named.is_empty())"
    | [] =>
      if negb (typecheck (fd_args f) slots) then Err EType
      else if existsb (fun x => negb (compatible_with (fd_collect f) (type_of x))) (ap_extra p) then Err EType
      else Ok (slots, ap_extra p)
    end.

End Binder.
