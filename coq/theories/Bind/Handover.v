(** Argument hand-over (C08 [handover_safe], DESIGN Appendix D).

    src/args.rs: [Args] is what a library function receives: the bound slots as an iterator, the
    collected extra values, and [this] for methods.  [next], [take_this] unwrap; the [From<Val>]
    conversions of src/val.rs end in [unreachable!()] for the kinds they do not handle; [Drop for
    Args] asserts that everything was consumed.  Every function body is a straight-line script of
    such operations ([hop]s, read off the source by translators/execscripts.py); [run_script] is
    its semantics over value kinds (conversions depend on the kind only), [script_safe] a decision
    procedure which, for a signature, guarantees that no run on arguments the binder lets through
    can panic.  No proofs here (Proofs/C08/Handover.v). *)
From RS Require Import Base.Bytes Base.Outcome Bind.Types Bind.BindSpec.

(** the conversions used by library functions: [let x: T = args.next().into()] *)
Inductive conv :=
| CBool | CU8 | CU16 | CU32 | CU64 | CSock4 | CIp4 | CBuf | CPktGen | CPkt
| COptIp4 | COptU64 | COptU32 | COptU16 | COptU8 | COptBuf
| CAsRef.     (* Val::as_ref *)

(** src/val.rs [impl From<Val> for T]: the kinds each conversion handles; everything else is
    [unreachable!()].  (Bool arms of the integer conversions as of commit 71834e5.) *)
Definition conv_defined (c : conv) (t : vtype) : bool :=
  match c with
  | CBool | CU8 | CU16 | CU32 | CU64 => is_integral t
  | CSock4 => vtype_eqb t TSock4
  | CIp4 => vtype_eqb t TIp4
  | CBuf => match t with TPkt | TStr | TU8 | TU16 | TU32 | TU64 | TIp4 => true | _ => false end
  | CPktGen => match t with TPktGen | TPkt => true | _ => false end
  | CPkt => vtype_eqb t TPkt
  | COptIp4 => match t with TVoid | TIp4 => true | _ => false end
  | COptU64 | COptU32 | COptU16 | COptU8 => vtype_eqb t TVoid || is_integral t
  | COptBuf => vtype_eqb t TVoid || is_string_coercible t
  | CAsRef => vtype_eqb t TStr
  end.

Inductive hop :=
| Next (c : conv)            (* let x: T = args.next().into(); *)
| NextRaw                    (* let x = args.next();  converted later at the parameter's own type *)
| NextAsRef                  (* args.next().as_ref() *)
| JoinExtra                  (* args.join_extra(..): collect_extra_args::<Buf> *)
| CollectExtra (c : conv)    (* let v: Vec<T> = args.collect_extra_args(); *)
| ExtraLen                   (* args.extra_len() *)
| TakeThis                   (* args.take_this() *)
| VoidAll                    (* args.void() *)
| Try                        (* a `?`: the function may return here *)
| Unknown.                   (* something the syntactic reader did not recognise *)

(** the conversion a raw [args.next()] is assumed to undergo: the canonical Rust type of the
    parameter (validated dynamically by the catalogue-driven runs) *)
Definition canon_type (t : vtype) : option conv :=
  match t with
  | TBool => Some CBool | TU8 => Some CU8 | TU16 => Some CU16 | TU32 => Some CU32 | TU64 => Some CU64
  | TIp4 => Some CIp4 | TSock4 => Some CSock4 | TStr => Some CBuf | TPkt => Some CPkt | TPktGen => Some CPktGen
  | _ => None
  end.

Definition canon_opt (t : vtype) : option conv :=
  match t with
  | TIp4 => Some COptIp4 | TU64 => Some COptU64 | TU32 => Some COptU32 | TU16 => Some COptU16 | TU8 => Some COptU8
  | TStr => Some COptBuf
  | _ => None
  end.

Definition canon (d : argdecl) : option conv :=
  match d with
  | Positional t => canon_type t
  | Optional (DType t) => canon_opt t
  | Optional dfl => canon_type (valdef_type dfl)
  end.

(** ** semantics: src/args.rs over value kinds *)
Record hstate := {
  h_this : bool;                         (* Args.this is Some *)
  h_it : list (argdecl * vtype);         (* remaining slots (with the parameter each belongs to) *)
  h_extra : list vtype                   (* Args.extra_args *)
}.

(** impl Drop for Args *)
Definition drop_args (st : hstate) : outcome unit :=
  if h_this st then Panic "args.rs drop: Method didn't take ownership of this"
  else match h_it st with
       | _ :: _ => Panic "args.rs drop: Function didn't consume all args"
       | [] => match h_extra st with
               | _ :: _ => Panic "args.rs drop: Function didn't consume extra args"
               | [] => Ok tt
               end
       end.

Definition convert (c : conv) (t : vtype) : outcome unit :=
  if conv_defined c t then Ok tt else Panic "val.rs From<Val>: unreachable!()".

(** [early] decides, for each [Try] in order, whether that `?` returns *)
Fixpoint run_script (s : list hop) (early : list bool) (st : hstate) : outcome unit :=
  match s with
  | [] => drop_args st
  | h :: r =>
    match h with
    | Next c =>
      match h_it st with
      | [] => Panic "args.rs next: unwrap on None"
      | (_, t) :: it => do _ <- convert c t;
                        run_script r early {| h_this := h_this st; h_it := it; h_extra := h_extra st |}
      end
    | NextRaw =>
      match h_it st with
      | [] => Panic "args.rs next: unwrap on None"
      | (d, t) :: it =>
        match canon d with
        | None => Panic "raw args.next() of a parameter without canonical conversion"
        | Some c => do _ <- convert c t;
                    run_script r early {| h_this := h_this st; h_it := it; h_extra := h_extra st |}
        end
      end
    | NextAsRef =>
      match h_it st with
      | [] => Panic "args.rs next: unwrap on None"
      | (_, t) :: it => do _ <- convert CAsRef t;
                        run_script r early {| h_this := h_this st; h_it := it; h_extra := h_extra st |}
      end
    | JoinExtra =>
      do _ <- omapM (convert CBuf) (h_extra st);
      run_script r early {| h_this := h_this st; h_it := h_it st; h_extra := [] |}
    | CollectExtra c =>
      do _ <- omapM (convert c) (h_extra st);
      run_script r early {| h_this := h_this st; h_it := h_it st; h_extra := [] |}
    | ExtraLen => run_script r early st
    | TakeThis =>
      if h_this st then run_script r early {| h_this := false; h_it := h_it st; h_extra := h_extra st |}
      else Panic "args.rs take_this: unwrap on None"
    | VoidAll => run_script r early {| h_this := h_this st; h_it := []; h_extra := [] |}
    | Try =>
      match early with
      | true :: _ => drop_args st
      | false :: e => run_script r e st
      | [] => run_script r [] st
      end
    | Unknown => Panic "execscripts.py: unrecognised argument operation"
    end
  end.

(** ** the decision procedure *)
Definition admits_all (accepts : vtype -> bool) (c : conv) : bool :=
  forallb (fun t => implb (accepts t) (conv_defined c t)) all_vtypes.

Definition all_consumed (this : bool) (decls : list argdecl) (pending : bool) : bool :=
  negb this && (match decls with [] => true | _ => false end) && negb pending.

(** [this]: not yet taken; [decls]: parameters whose slots are not yet taken; [pending]: the
    collected values may be non-empty and are not yet consumed *)
Fixpoint check_script (collect : vtype) (s : list hop) (this : bool) (decls : list argdecl) (pending : bool) : bool :=
  match s with
  | [] => all_consumed this decls pending
  | h :: r =>
    match h with
    | Next c =>
      match decls with
      | [] => false
      | d :: ds => admits_all (param_accepts d) c && check_script collect r this ds pending
      end
    | NextRaw =>
      match decls with
      | [] => false
      | d :: ds => match canon d with
                   | None => false
                   | Some c => admits_all (param_accepts d) c && check_script collect r this ds pending
                   end
      end
    | NextAsRef =>
      match decls with
      | [] => false
      | d :: ds => admits_all (param_accepts d) CAsRef && check_script collect r this ds pending
      end
    | JoinExtra =>
      (negb pending || admits_all (compat_spec collect) CBuf) && check_script collect r this decls false
    | CollectExtra c =>
      (negb pending || admits_all (compat_spec collect) c) && check_script collect r this decls false
    | ExtraLen => check_script collect r this decls pending
    | TakeThis => this && check_script collect r false decls pending
    | VoidAll => check_script collect r this [] false
    | Try => all_consumed this decls pending && check_script collect r this decls pending
    | Unknown => false
    end
  end.

Definition script_safe (f : funcdef) (is_method : bool) (s : list hop) : bool :=
  check_script (fd_collect f) s is_method (map snd (fd_args f)) (collects f).

(** the state a function starts in when the binder accepted a call *)
Definition initial_state (f : funcdef) (is_method : bool) (slots extra : list vtype) : hstate :=
  {| h_this := is_method; h_it := combine (map snd (fd_args f)) slots; h_extra := extra |}.

(** a whole table of scripts against a catalogue: every function has a script and it is safe,
    except for the listed keys *)
Definition entry_safe (scripts : list (string * (bool * list hop))) (f : funcdef) : bool :=
  match assoc (fd_key f) scripts with
  | Some (m, s) => script_safe f m s
  | None => false
  end.

Definition unsafe_keys (scripts : list (string * (bool * list hop))) (cat : list funcdef) : list string :=
  map fd_key (filter (fun f => negb (entry_safe scripts f)) cat).
