(** The calling convention as a specification (DESIGN Appendix B, property C11).

    Stated without a state machine and without reference to [Bind/Binder.v]: a call is split as
    (leading unnamed arguments) ++ (named arguments) ++ (unnamed tail); a handful of conditions
    decide acceptance; every parameter's slot is read off the call directly.  The only things
    shared with the model of the implementation are the data types of [Bind/Types.v]
    ([vtype], [valdef], [argdecl], [funcdef]).  The compatibility relation is restated here as an
    explicit table ([accepts]); that it coincides with the model's [compatible_with] is theorem
    [C11_compat_table]. *)
From RS Require Import Base.Bytes Base.Outcome Bind.Types.

(** * Type compatibility, as the property's prose lists it

    same type; any integer or boolean for an integer or boolean; a string, integer, address or
    packet for bytes; a packet for a packet sequence. *)
Definition accepts (param : vtype) : list vtype :=
  match param with
  | TVoid => [TVoid]
  | TBool => [TBool; TU8; TU16; TU32; TU64]
  | TU8 => [TU8; TBool; TU16; TU32; TU64]
  | TU16 => [TU16; TBool; TU8; TU32; TU64]
  | TU32 => [TU32; TBool; TU8; TU16; TU64]
  | TU64 => [TU64; TBool; TU8; TU16; TU32]
  | TIp4 => [TIp4]
  | TSock4 => [TSock4]
  | TStr => [TStr; TU8; TU16; TU32; TU64; TIp4; TPkt]
  | TType => [TType]
  | TObj => [TObj]
  | TFunc => [TFunc]
  | TMethod => [TMethod]
  | TPkt => [TPkt]
  | TPktGen => [TPktGen; TPkt]
  | TTimeJump => [TTimeJump]
  end.

Definition compat_spec (param arg : vtype) : bool := existsb (vtype_eqb arg) (accepts param).

(** the same relation as the four clauses of the prose *)
Definition integral (t : vtype) : Prop := t = TBool \/ t = TU8 \/ t = TU16 \/ t = TU32 \/ t = TU64.

Definition compat_prose (p a : vtype) : Prop :=
  p = a
  \/ (integral p /\ integral a)
  \/ (p = TStr /\ (a = TStr \/ a = TU8 \/ a = TU16 \/ a = TU32 \/ a = TU64 \/ a = TIp4 \/ a = TPkt))
  \/ (p = TPktGen /\ a = TPkt).

(** what a parameter takes: a mandatory one its declared type; an optional one the type of its
    default; a nullable option ([Optional (DType t)], default "nothing") nothing at all or [t] *)
Definition param_accepts (d : argdecl) (arg : vtype) : bool :=
  match d with
  | Positional t => compat_spec t arg
  | Optional (DType t) => vtype_eqb arg TVoid || compat_spec t arg
  | Optional dfl => compat_spec (valdef_type dfl) arg
  end.

(** * Well-formed signatures *)
Definition param := (string * argdecl)%type.

Definition is_optional (p : param) : bool :=
  match snd p with Optional _ => true | Positional _ => false end.
Definition is_mandatory (p : param) : bool := negb (is_optional p).

(** all mandatory parameters come before all optional ones *)
Fixpoint mandatory_first (ps : list param) : bool :=
  match ps with
  | [] => true
  | p :: r => if is_optional p then forallb is_optional r else mandatory_first r
  end.

Definition count_mandatory (ps : list param) : nat := length (filter is_mandatory ps).

Definition mem_string (x : string) (l : list string) : bool := existsb (String.eqb x) l.

Fixpoint distinct (l : list string) : bool :=
  match l with
  | [] => true
  | x :: r => negb (mem_string x r) && distinct r
  end.

(** position of a name in a list of names *)
Fixpoint index_of (x : string) (l : list string) : option nat :=
  match l with
  | [] => None
  | y :: r => if String.eqb x y then Some O else option_map S (index_of x r)
  end.

(** the table [name |-> index] that [func!] is supposed to generate *)
Fixpoint index_table (i : nat) (names : list string) : list (string * nat) :=
  match names with
  | [] => []
  | x :: r => (x, i) :: index_table (S i) r
  end.

Fixpoint pos_table_eqb (a b : list (string * nat)) : bool :=
  match a, b with
  | [], [] => true
  | (x, i) :: a', (y, j) :: b' => String.eqb x y && Nat.eqb i j && pos_table_eqb a' b'
  | _, _ => false
  end.

Definition param_names (f : funcdef) : list string := map fst (fd_args f).

Definition wf_sig (f : funcdef) : bool :=
  mandatory_first (fd_args f)
  && distinct (param_names f)
  && pos_table_eqb (fd_arg_pos f) (index_table 0 (param_names f))
  && Nat.eqb (fd_min_args f) (count_mandatory (fd_args f))
  && negb (fd_unknown_pos f).

(** * The convention *)
Section Spec.
Variable V : Type.
Variable type_of : V -> vtype.
Variable of_valdef : valdef -> V.

Definition arg := (option string * V)%type.

Definition anon (a : arg) : bool := match fst a with None => true | Some _ => false end.
Definition named (a : arg) : bool := negb (anon a).

Fixpoint take_while (p : arg -> bool) (l : list arg) : list arg :=
  match l with
  | [] => []
  | a :: r => if p a then a :: take_while p r else []
  end.

Fixpoint drop_while (p : arg -> bool) (l : list arg) : list arg :=
  match l with
  | [] => []
  | a :: r => if p a then drop_while p r else l
  end.

Fixpoint names_of (l : list arg) : list string :=
  match l with
  | [] => []
  | (Some x, _) :: r => x :: names_of r
  | (None, _) :: r => names_of r
  end.

(** the value given as [name: value] *)
Fixpoint lookup (x : string) (l : list arg) : option V :=
  match l with
  | [] => None
  | (Some y, v) :: r => if String.eqb x y then Some v else lookup x r
  | (None, _) :: r => lookup x r
  end.

Definition collects (f : funcdef) : bool := negb (vtype_eqb (fd_collect f) TVoid).

(** how many leading unnamed arguments fill parameters: all of them, but only up to the
    mandatory count when the function accepts a variable tail *)
Definition lead_count (f : funcdef) (c : list arg) : nat :=
  let a := length (take_while anon c) in
  if collects f then Nat.min a (count_mandatory (fd_args f)) else a.

Definition named_part (f : funcdef) (c : list arg) : list arg :=
  take_while named (skipn (lead_count f c) c).
Definition tail_part (f : funcdef) (c : list arg) : list arg :=
  drop_while named (skipn (lead_count f c) c).

(** the value the caller designated for parameter number [i] *)
Definition designated (f : funcdef) (c : list arg) (i : nat) (p : param) : option V :=
  if Nat.ltb i (lead_count f c) then nth_error (map snd c) i
  else match lookup (fst p) (named_part f c) with
       | Some v => Some v
       | None => match snd p with
                 | Optional dfl => Some (of_valdef dfl)
                 | Positional _ => None          (* a mandatory parameter was omitted *)
                 end
       end.

Fixpoint slots_from (f : funcdef) (c : list arg) (i : nat) (ps : list param) : option (list V) :=
  match ps with
  | [] => Some []
  | p :: r =>
    match designated f c i p, slots_from f c (S i) r with
    | Some v, Some vs => Some (v :: vs)
    | _, _ => None
    end
  end.

Fixpoint all_accept (ps : list param) (vs : list V) : bool :=
  match ps, vs with
  | p :: pr, v :: vr => param_accepts (snd p) (type_of v) && all_accept pr vr
  | _, _ => true
  end.

Definition name_ok (f : funcdef) (c : list arg) (x : string) : bool :=
  match index_of x (param_names f) with
  | Some i => Nat.leb (lead_count f c) i     (* declared, and not already filled by position *)
  | None => false                            (* unknown parameter *)
  end.

Definition shape_ok (f : funcdef) (c : list arg) : bool :=
  Nat.leb (lead_count f c) (length (fd_args f))          (* no more leading values than parameters *)
  && forallb anon (tail_part f c)                        (* nothing named after the unnamed tail *)
  && (collects f || match tail_part f c with [] => true | _ => false end)   (* a tail only if collected *)
  && forallb (name_ok f c) (names_of (named_part f c))   (* names declared, not already supplied by position *)
  && distinct (names_of (named_part f c)).               (* no name twice *)

Definition bind_spec (f : funcdef) (c : list arg) : outcome (list V * list V) :=
  if shape_ok f c then
    match slots_from f c 0 (fd_args f) with
    | None => Err EType
    | Some slots =>
      let extra := map snd (tail_part f c) in
      if all_accept (fd_args f) slots
         && forallb (fun v => compat_spec (fd_collect f) (type_of v)) extra
      then Ok (slots, extra)
      else Err EType
    end
  else Err EType.

End Spec.
