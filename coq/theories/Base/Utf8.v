(** Strict UTF-8 decoding (as Rust's str guarantees) and the Unicode White_Space property
    (char::is_whitespace; the regex crate's \s). *)
From RS Require Import Base.Bytes.
Open Scope N_scope.

Definition is_cont (b : N) : bool := (128 <=? b) && (b <? 192).

(** decode the character at the head of a byte string: (code point, bytes consumed) *)
Definition utf8_decode (l : bytes) : option (N * nat) :=
  match l with
  | [] => None
  | b0 :: r =>
    if b0 <? 128 then Some (b0, 1%nat)
    else if b0 <? 194 then None
    else if b0 <? 224 then
      match r with
      | b1 :: _ => if is_cont b1 then Some ((b0 - 192) * 64 + (b1 - 128), 2%nat) else None
      | _ => None
      end
    else if b0 <? 240 then
      match r with
      | b1 :: b2 :: _ =>
        if is_cont b1 && is_cont b2 then
          let cp := ((b0 - 224) * 64 + (b1 - 128)) * 64 + (b2 - 128) in
          if (cp <? 2048) || ((55296 <=? cp) && (cp <? 57344)) then None else Some (cp, 3%nat)
        else None
      | _ => None
      end
    else if b0 <? 245 then
      match r with
      | b1 :: b2 :: b3 :: _ =>
        if is_cont b1 && is_cont b2 && is_cont b3 then
          let cp := (((b0 - 240) * 64 + (b1 - 128)) * 64 + (b2 - 128)) * 64 + (b3 - 128) in
          if (cp <? 65536) || (1114111 <? cp) then None else Some (cp, 4%nat)
        else None
      | _ => None
      end
    else None
  end.

(** Unicode White_Space *)
Definition is_whitespace (cp : N) : bool :=
  ((9 <=? cp) && (cp <=? 13)) || (cp =? 32) || (cp =? 133) || (cp =? 160) || (cp =? 5760)
  || ((8192 <=? cp) && (cp <=? 8202)) || (cp =? 8232) || (cp =? 8233) || (cp =? 8239)
  || (cp =? 8287) || (cp =? 12288).

(** valid UTF-8 as a whole (fuel = length) *)
Fixpoint utf8_valid_fuel (fuel : nat) (l : bytes) : bool :=
  match l with
  | [] => true
  | _ => match fuel with
         | O => false
         | S f => match utf8_decode l with
                  | Some (_, n) => utf8_valid_fuel f (skipn n l)
                  | None => false
                  end
         end
  end.
Definition utf8_valid (l : bytes) : bool := utf8_valid_fuel (length l) l.
