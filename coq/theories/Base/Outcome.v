(** Results of model functions: success, a language-level error, or a panic of the
    implementation (unwrap/unreachable/assert/overflow/index).  No model function is
    totalised with a default where the code would panic. *)
From RS Require Import Base.Bytes.


Inductive error :=
| EIo | ELex | EParse | EMemory | EImport (name : string) | EName | EType | ERuntime
| EMultipleAssign (name : string).

Inductive outcome (A : Type) :=
| Ok (a : A)
| Err (e : error)
| Panic (site : string)
| OutOfFuel.
Arguments Ok {A} a.
Arguments Err {A} e.
Arguments Panic {A} site.
Arguments OutOfFuel {A}.

Definition obind {A B} (x : outcome A) (f : A -> outcome B) : outcome B :=
  match x with
  | Ok a => f a
  | Err e => Err e
  | Panic s => Panic s
  | OutOfFuel => OutOfFuel
  end.

Notation "'do' x <- a ; b" := (obind a (fun x => b))
  (at level 200, x pattern, a at level 100, b at level 200).

Definition omap {A B} (f : A -> B) (x : outcome A) : outcome B :=
  obind x (fun a => Ok (f a)).

Definition is_ok {A} (x : outcome A) : bool := match x with Ok _ => true | _ => false end.
Definition is_panic {A} (x : outcome A) : bool :=
  match x with Panic _ | OutOfFuel => true | _ => false end.

(** checked unsigned arithmetic: the debug-build semantics of [+] and [*] *)
Definition cadd (bound : N) (site : string) (a b : N) : outcome N :=
  if a + b <? bound then Ok (a + b) else Panic site.
Definition cmul (bound : N) (site : string) (a b : N) : outcome N :=
  if a * b <? bound then Ok (a * b) else Panic site.


Fixpoint omapM {A B} (f : A -> outcome B) (l : list A) : outcome (list B) :=
  match l with
  | [] => Ok []
  | x :: r => do y <- f x; do ys <- omapM f r; Ok (y :: ys)
  end.
