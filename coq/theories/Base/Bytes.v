(** Bytes, big/little-endian encodings and list helpers shared by the whole model.
    A byte is an [N] below 256; buffers are [list N]. *)
From Coq Require Export Strings.String.
From Coq Require Export List NArith Bool Lia.
Export ListNotations.
Open Scope N_scope.

Arguments N.add : simpl never.
Arguments N.sub : simpl never.
Arguments N.mul : simpl never.
Arguments N.div : simpl never.
Arguments N.modulo : simpl never.
Arguments N.eqb : simpl never.
Arguments N.ltb : simpl never.
Arguments N.leb : simpl never.
Arguments N.pow : simpl never.
Arguments N.land : simpl never.
Arguments N.lor : simpl never.
Arguments N.shiftl : simpl never.
Arguments N.shiftr : simpl never.

Definition byte := N.
Definition bytes := list N.

Definition len {A} (l : list A) : N := N.of_nat (length l).

Definition is_byte (b : N) : bool := b <? 256.
Definition wf_bytes (l : bytes) : Prop := Forall (fun b => b < 256) l.
Definition wf_bytesb (l : bytes) : bool := forallb is_byte l.

Definition be16 (x : N) : bytes := [(x / 256) mod 256; x mod 256].
Definition be32 (x : N) : bytes := be16 (x / 65536) ++ be16 (x mod 65536).
Definition be64 (x : N) : bytes := be32 (x / 4294967296) ++ be32 (x mod 4294967296).
Definition le16 (x : N) : bytes := rev (be16 x).
Definition le32 (x : N) : bytes := rev (be32 x).
Definition le64 (x : N) : bytes := rev (be64 x).
(** three low-order bytes, big-endian (TLS 24-bit lengths) *)
Definition be24 (x : N) : bytes := [(x / 65536) mod 256; (x / 256) mod 256; x mod 256].

(** decoding *)
Definition rd16 (a b : N) : N := a * 256 + b.
Definition rd32 (a b c d : N) : N := ((a * 256 + b) * 256 + c) * 256 + d.

Definition takeN {A} (n : N) (l : list A) : list A := firstn (N.to_nat n) l.
Definition dropN {A} (n : N) (l : list A) : list A := skipn (N.to_nat n) l.

(** the standard library's [rev] is quadratic; the model reverses its accumulators with this one (= [rev], see
    Proofs/BytesLemmas.v [frev_rev]) so that programs of tens of thousands of statements stay executable *)
Definition frev {A} (l : list A) : list A := rev_append l [].

Definition zeros (n : nat) : bytes := repeat 0 n.

Definition wrap8 (x : N) : N := x mod 256.
Definition wrap16 (x : N) : N := x mod 65536.
Definition wrap32 (x : N) : N := x mod 4294967296.
Definition wrap64 (x : N) : N := x mod 18446744073709551616.

Definition two16 : N := 65536.
Definition two32 : N := 4294967296.
Definition two64 : N := 18446744073709551616.

(** join a list of buffers with a separator (Rust [slice::join]) *)
Fixpoint join (sep : bytes) (l : list bytes) : bytes :=
  match l with
  | [] => []
  | [x] => x
  | x :: r => x ++ sep ++ join sep r
  end.

Fixpoint list_eqb {A} (eqb : A -> A -> bool) (a b : list A) : bool :=
  match a, b with
  | [], [] => true
  | x :: a', y :: b' => eqb x y && list_eqb eqb a' b'
  | _, _ => false
  end.

Definition bytes_eqb : bytes -> bytes -> bool := list_eqb N.eqb.
