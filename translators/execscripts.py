#!/usr/bin/env python3
"""execscripts.py <repo> <gendir>: syntactic reader of the func! bodies in <repo>/src/stdlib/**/*.rs.

Every standard-library function is written in one idiom: a closure `|mut args| { ... }` that takes its bound
arguments out of `args` in order.  This translator reduces each body to the ordered list of argument-consuming
operations (DESIGN Appendix D) and writes them, keyed like the catalogue (`ipv4::tcp::TcpFlow.open`), to
<gendir>/ExecScripts.v as `exec_scripts : list (string * (bool * list hop))` (the bool: defined in a class! table,
i.e. a method).  Anything it does not recognise becomes the hop `Unknown`, which `script_safe` rejects -- being
syntactic it may break on a harmless rewrite; it never silently accepts."""
import os, re, sys

CONV = {
    "bool": "CBool", "u8": "CU8", "u16": "CU16", "u32": "CU32", "u64": "CU64",
    "SocketAddrV4": "CSock4", "Ipv4Addr": "CIp4", "Buf": "CBuf",
    "Rc<Vec<Packet>>": "CPktGen", "Rc<Packet>": "CPkt",
    "Option<Ipv4Addr>": "COptIp4", "Option<u64>": "COptU64", "Option<u32>": "COptU32",
    "Option<u16>": "COptU16", "Option<u8>": "COptU8", "Option<Buf>": "COptBuf",
}


def strip_comments(src):
    """remove // comments (incl. ///) and /* */ comments, keep string literals and line structure"""
    out, i, n = [], 0, len(src)
    while i < n:
        c = src[i]
        if c == '"':
            j = i + 1
            while j < n and src[j] != '"':
                j += 2 if src[j] == "\\" else 1
            out.append('"' + " " * (j - i - 1) + '"')
            i = j + 1
        elif c == "'" and i + 2 < n and (src[i + 2] == "'" or (src[i + 1] == "\\" and i + 3 < n and src[i + 3] == "'")):
            j = src.index("'", i + 2)
            out.append("' '".ljust(j - i + 1))
            i = j + 1
        elif src.startswith("//", i):
            j = src.find("\n", i)
            j = n if j < 0 else j
            i = j
        elif src.startswith("/*", i):
            j = src.find("*/", i + 2)
            j = n if j < 0 else j + 2
            out.append("".join(ch if ch == "\n" else " " for ch in src[i:j]))
            i = j
        else:
            out.append(c)
            i += 1
    return "".join(out)


def matching(src, i, open_ch, close_ch):
    """index of the bracket matching src[i]"""
    depth = 0
    for j in range(i, len(src)):
        if src[j] == open_ch:
            depth += 1
        elif src[j] == close_ch:
            depth -= 1
            if depth == 0:
                return j
    raise ValueError("unbalanced %s at %d" % (open_ch, i))


HOP_RES = [
    ("next_into", re.compile(r"let\s+(?:mut\s+)?\w+\s*:\s*([A-Za-z0-9_<>:]+)\s*=\s*args\s*\.\s*next\s*\(\s*\)\s*\.\s*into\s*\(\s*\)\s*;")),
    ("collect", re.compile(r"let\s+(?:mut\s+)?\w+\s*:\s*Vec\s*<\s*([A-Za-z0-9_<>:]+)\s*>\s*=\s*args\s*\.\s*collect_extra_args\s*\(\s*\)\s*;")),
    ("next_asref", re.compile(r"args\s*\.\s*next\s*\(\s*\)\s*\.\s*as_ref\s*\(\s*\)")),
    ("next_raw", re.compile(r"let\s+(?:mut\s+)?\w+\s*=\s*args\s*\.\s*next\s*\(\s*\)\s*;")),
    ("take_this", re.compile(r"args\s*\.\s*take_this\s*\(\s*\)")),
    ("join_extra", re.compile(r"args\s*\.\s*join_extra\s*\(")),
    ("extra_len", re.compile(r"args\s*\.\s*extra_len\s*\(\s*\)")),
    ("void", re.compile(r"args\s*\.\s*void\s*\(\s*\)")),
]
ARGS_USE = re.compile(r"\bargs\b")


def script_of(body):
    """body: text between the closure's braces (comments stripped) -> list of Coq hop terms"""
    found = []          # (start, end, hop)
    taken = [False] * len(body)

    def free(a, b):
        return not any(taken[a:b])

    for kind, rx in HOP_RES:
        for m in rx.finditer(body):
            if not free(m.start(), m.end()):
                continue
            if kind == "next_into":
                hop = "Next %s" % CONV[m.group(1)] if m.group(1) in CONV else "Unknown"
            elif kind == "collect":
                hop = "CollectExtra %s" % CONV[m.group(1)] if m.group(1) in CONV else "Unknown"
            else:
                hop = {"next_asref": "NextAsRef", "next_raw": "NextRaw", "take_this": "TakeThis",
                       "join_extra": "JoinExtra", "extra_len": "ExtraLen", "void": "VoidAll"}[kind]
            found.append((m.start(), m.end(), hop))
            for k in range(m.start(), m.end()):
                taken[k] = True
    # any other mention of `args` is something this reader does not understand
    for m in ARGS_USE.finditer(body):
        if free(m.start(), m.end()):
            found.append((m.start(), m.end(), "Unknown"))
    # an argument operation inside a nested block (if/match/loop/closure body) cannot be read linearly
    depth = 0
    depth_at = []
    for ch in body:
        depth_at.append(depth)
        if ch == "{":
            depth += 1
        elif ch == "}":
            depth -= 1
    found = [(a, b, "Unknown" if depth_at[a] > 0 and h != "Unknown" else h) for a, b, h in found]
    # `?` : a possible early return
    for m in re.finditer(r"\?", body):
        if free(m.start(), m.end()):
            found.append((m.start(), m.end(), "Try"))
    found.sort()
    return [h for _, _, h in found]


FUNC_RE = re.compile(r"(?:pub\s+)?const\s+(\w+)\s*:\s*FuncDef\s*=\s*func!\s*[\(\{]")
TABLE_RE = re.compile(r"(?:pub\s+)?const\s+(\w+)\s*:\s*(Module|ClassDef)\s*=\s*(module|class)!\s*[\(\{]")
ENTRY_RE = re.compile(r"(\w+)\s*=>\s*Symbol::(Module|Func|Class|Val)\s*\(\s*&?\s*([A-Za-z0-9_:]+)")


def read_file(path):
    src = strip_comments(open(path, encoding="utf-8", errors="replace").read())
    funcs, tables = {}, {}
    for m in FUNC_RE.finditer(src):
        start = m.end() - 1
        end = matching(src, start, src[start], ")" if src[start] == "(" else "}")
        block = src[start:end]
        nm = re.search(r"resynth\s+fn\s+(\w+)\s*\(", block)
        cl = re.search(r"\|\s*(?:mut\s+)?(_?args)\s*\|\s*\{", block)
        if not nm:
            continue
        if not cl:
            funcs[m.group(1)] = (nm.group(1), ["Unknown"])
            continue
        b0 = cl.end() - 1
        b1 = matching(block, b0, "{", "}")
        body = block[b0 + 1:b1]
        funcs[m.group(1)] = (nm.group(1), [] if cl.group(1) == "_args" and not ARGS_USE.search(body) else script_of(body))
    for m in TABLE_RE.finditer(src):
        start = m.end() - 1
        end = matching(src, start, src[start], ")" if src[start] == "(" else "}")
        block = src[start:end]
        entries = [(e.group(1), e.group(2), e.group(3)) for e in ENTRY_RE.finditer(block)]
        tables[m.group(1)] = (m.group(2), entries)
    return funcs, tables


def main(repo, gendir):
    root = os.path.join(repo, "src", "stdlib")
    files = {}
    for d, _, fs in os.walk(root):
        if os.path.basename(d) == "test":
            continue
        for f in sorted(fs):
            if f.endswith(".rs"):
                rel = os.path.relpath(os.path.join(d, f), root)
                files[rel] = read_file(os.path.join(d, f))

    def file_of_module(cur, name):
        """`name::X` as seen from file cur -> the file that defines module `name`"""
        base = os.path.dirname(cur) if os.path.basename(cur) == "mod.rs" else os.path.splitext(cur)[0]
        for cand in (os.path.join(base, name + ".rs"), os.path.join(base, name, "mod.rs")):
            cand = os.path.normpath(cand)
            if cand in files:
                return cand
        return None

    def resolve(cur, ref, want):
        """-> (file, const) for a reference like X, mod::X"""
        parts = ref.split("::")
        if len(parts) > 1:
            f = cur
            for p in parts[:-1]:
                f = file_of_module(f, p)
                if f is None:
                    return None
            return (f, parts[-1])
        pool = "funcs" if want == "Func" else "tables"
        idx = 0 if want == "Func" else 1
        if ref in files[cur][idx]:
            return (cur, ref)
        cands = [f for f in files if ref in files[f][idx]]
        return (cands[0], ref) if len(cands) == 1 else None

    out = []          # (key, is_method, script)
    problems = []

    def walk(file, const, path):
        kind, entries = files[file][1][const]
        for name, sk, ref in entries:
            child = name if not path else path + "::" + name
            if sk == "Module":
                r = resolve(file, ref, "Module")
                if r is None or r[1] not in files[r[0]][1]:
                    problems.append("unresolved module %s in %s" % (ref, file))
                    continue
                walk(r[0], r[1], child)
            elif sk == "Func":
                r = resolve(file, ref, "Func")
                if r is None:
                    problems.append("unresolved function %s in %s" % (ref, file))
                    out.append((child, False, ["Unknown"]))
                    continue
                out.append((child, False, files[r[0]][0][r[1]][1]))
            elif sk == "Class":
                r = resolve(file, ref, "Class")
                if r is None or r[1] not in files[r[0]][1]:
                    problems.append("unresolved class %s in %s" % (ref, file))
                    continue
                for mname, msk, mref in files[r[0]][1][r[1]][1]:
                    if msk != "Func":
                        continue
                    rr = resolve(r[0], mref, "Func")
                    if rr is None:
                        problems.append("unresolved method %s in %s" % (mref, r[0]))
                        out.append(("%s.%s" % (child, mname), True, ["Unknown"]))
                        continue
                    out.append(("%s.%s" % (child, mname), True, files[rr[0]][0][rr[1]][1]))

    if "mod.rs" in files and "STDLIB" in files["mod.rs"][1]:
        walk("mod.rs", "STDLIB", "")
    else:
        problems.append("no STDLIB table in src/stdlib/mod.rs")

    lines = ["(* GENERATED by translators/execscripts.py from the func! bodies in src/stdlib. Do not edit. *)",
             "From RS Require Import Base.Bytes Bind.Types Bind.Handover.",
             "Open Scope string_scope.", "",
             "Definition exec_scripts : list (string * (bool * list hop)) := ["]
    ents = []
    for key, meth, script in out:
        ents.append('  ("%s", (%s, [%s]))' % (key, "true" if meth else "false", "; ".join(script)))
    lines.append(";\n".join(ents))
    lines.append("].")
    lines.append("")
    lines.append("(* reader diagnostics: %s *)" % ("; ".join(problems) if problems else "none"))
    text = "\n".join(lines) + "\n"
    dst = os.path.join(gendir, "ExecScripts.v")
    try:
        if open(dst).read() == text:
            return
    except OSError:
        pass
    tmp = dst + ".tmp%d" % os.getpid()
    with open(tmp, "w") as f:
        f.write(text)
    os.replace(tmp, dst)


def fail_soft(gendir, why):
    """the reader itself broke on the source: leave an empty table (every entry then counts as unsafe, which only
    the C08 hand-over instance looks at) instead of failing every property's build"""
    text = ("(* GENERATED by translators/execscripts.py. Do not edit. *)\n"
            "From RS Require Import Base.Bytes Bind.Types Bind.Handover.\nOpen Scope string_scope.\n\n"
            "Definition exec_scripts : list (string * (bool * list hop)) := [].\n\n"
            "(* reader diagnostics: FAILED: %s *)\n" % why.replace("*)", "* )"))
    with open(os.path.join(gendir, "ExecScripts.v"), "w") as f:
        f.write(text)


if __name__ == "__main__":
    try:
        main(sys.argv[1], sys.argv[2])
    except Exception as e:   # noqa
        import traceback
        fail_soft(sys.argv[2], traceback.format_exc()[-800:])
