#!/bin/sh
# Build the framework from files on disk only (offline): cargo builds, regenerated tables,
# the Coq development, extraction + native compilation of the model driver.
set -e
cd "$(dirname "$0")"
export CARGO_NET_OFFLINE=true
python3 - <<'PY'
import sys, os
sys.path.insert(0, os.path.join(os.getcwd(), "lib"))
import common
with common.Lock():
    common.build_rust()
    common.regen_tables()
    rc, out, secs = common.build_coq(None)
    if rc != 0:
        print(out[-5000:])
        sys.exit(1)
    common.build_model()
print("setup ok")
PY
