//! Shared helpers for the correspondence harness binaries.
pub fn hex(b: &[u8]) -> String {
    let mut s = String::with_capacity(b.len() * 2);
    for x in b {
        s.push_str(&format!("{:02x}", x));
    }
    s
}

pub fn unhex(s: &str) -> Vec<u8> {
    let s = s.trim();
    if s == "-" {
        return Vec::new();
    }
    let b = s.as_bytes();
    let mut v = Vec::with_capacity(b.len() / 2);
    let mut i = 0;
    while i + 1 < b.len() {
        let h = (b[i] as char).to_digit(16).unwrap() as u8;
        let l = (b[i + 1] as char).to_digit(16).unwrap() as u8;
        v.push((h << 4) | l);
        i += 2;
    }
    v
}

/// Run a closure, mapping a panic to Err(message)
pub fn guarded<T, F: FnOnce() -> T>(f: F) -> Result<T, String> {
    let prev = std::panic::take_hook();
    std::panic::set_hook(Box::new(|_| {}));
    let r = std::panic::catch_unwind(std::panic::AssertUnwindSafe(f));
    std::panic::set_hook(prev);
    r.map_err(|e| {
        if let Some(s) = e.downcast_ref::<&str>() {
            s.to_string()
        } else if let Some(s) = e.downcast_ref::<String>() {
            s.clone()
        } else {
            "panic".to_string()
        }
    })
}
