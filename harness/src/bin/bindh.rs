//! C11 real side: run the real `FuncDef::argvec` on calls described one per line.
//!
//! usage: bindh <cases-file> <results-file>
//! case line:   `<function key> <arg>*`   with arg = `name:KIND:tag` or `_:KIND:tag`
//! result line: `OK slots=[KIND:payload,...] extra=[...]` | `ERR type` | `ERR <other>` | `PANIC <message>`
//!
//! Values are tagged through their payload so that the slot a value ends up in is observable:
//! integers carry the tag as their value, addresses as the address, strings as the decimal
//! spelling of the tag, objects/functions/packets are taken from per-tag tables and recognised
//! again by equality or pointer identity.  The binder's own `println!` diagnostics go to stdout,
//! results go to the results file.
use resynth::verif::*;
use rsharness::{guarded, hex};
use std::collections::HashMap;
use std::io::{BufRead, BufReader, BufWriter, Write};
use std::net::{Ipv4Addr, SocketAddrV4};
use std::rc::Rc;

const NTAGS: usize = 16;

fn walk(path: &str, m: &'static Module, out: &mut Vec<(String, &'static FuncDef)>) {
    for sd in m.symtab.iter() {
        let child = if path.is_empty() {
            sd.name.to_string()
        } else {
            format!("{}::{}", path, sd.name)
        };
        match sd.sym {
            Symbol::Module(c) => walk(&child, c, out),
            Symbol::Func(f) => out.push((child, f)),
            Symbol::Class(c) => {
                for md in c.symtab.iter() {
                    if let Symbol::Func(f) = md.sym {
                        out.push((format!("{}.{}", child, md.name), f));
                    }
                }
            }
            Symbol::Val(_) => {}
        }
    }
}

struct Tables {
    funcs: Vec<(String, &'static FuncDef)>,
    by_key: HashMap<String, &'static FuncDef>,
    objs: Vec<Val>,
    pkts: Vec<Rc<pkt::Packet>>,
    gens: Vec<Rc<Vec<pkt::Packet>>>,
}

fn make_tables() -> Tables {
    let mut funcs = Vec::new();
    walk("", stdlib_root(), &mut funcs);
    let mut by_key = HashMap::new();
    for (k, f) in funcs.iter() {
        by_key.insert(k.clone(), *f);
    }
    // real objects: UDP flows that differ in the client port, made by the real constructor's exec
    let flow = by_key["ipv4::udp::flow"];
    let mut objs = Vec::new();
    for t in 0..NTAGS {
        let cl = Val::Sock4(SocketAddrV4::new(Ipv4Addr::new(10, 0, 0, 1), 1000 + t as u16));
        let sv = Val::Sock4(SocketAddrV4::new(Ipv4Addr::new(10, 0, 0, 2), 53));
        // handed over directly (not through the binder under test): cl, sv, raw
        let args = Args::new(None, vec![cl, sv, Val::Bool(false)], vec![]);
        objs.push((flow.exec)(args).expect("udp::flow runs"));
    }
    let pkts = (0..NTAGS).map(|_| Rc::new(pkt::Packet::with_capacity(16))).collect();
    let gens = (0..NTAGS).map(|_| Rc::new(Vec::new())).collect();
    Tables { funcs, by_key, objs, pkts, gens }
}

fn make_val(t: &Tables, kind: &str, tag: u64) -> Result<Val, String> {
    let i = (tag as usize) % NTAGS;
    Ok(match kind {
        "Void" => Val::Nil,
        "Bool" => Val::Bool(tag & 1 == 1),
        "U8" => Val::U8(tag as u8),
        "U16" => Val::U16(tag as u16),
        "U32" => Val::U32(tag as u32),
        "U64" => Val::U64(tag),
        "Ip4" => Val::Ip4(Ipv4Addr::from(tag as u32)),
        "Sock4" => Val::Sock4(SocketAddrV4::new(Ipv4Addr::from((tag >> 16) as u32), (tag & 0xffff) as u16)),
        "Str" => Val::str(tag.to_string().as_bytes()),
        "Obj" => t.objs[i].clone(),
        "Func" => Val::Func(t.funcs[i].1),
        "Method" => match &t.objs[i] {
            Val::Obj(o) => Val::Method(o.clone(), t.funcs[i].1),
            _ => return Err("object table".to_string()),
        },
        "Pkt" => Val::Pkt(t.pkts[i].clone()),
        "PktGen" => Val::PktGen(t.gens[i].clone()),
        "TimeJump" => Val::TimeJump(tag),
        _ => return Err(format!("unknown kind {}", kind)),
    })
}

fn func_index(t: &Tables, f: &'static FuncDef) -> String {
    for (i, (_, g)) in t.funcs.iter().enumerate() {
        if std::ptr::eq(*g as *const FuncDef, f as *const FuncDef) {
            return i.to_string();
        }
    }
    "?".to_string()
}

fn obj_index(t: &Tables, o: &ObjRef) -> String {
    for (i, v) in t.objs.iter().enumerate() {
        if let Val::Obj(p) = v {
            if p == o {
                return i.to_string();
            }
        }
    }
    "?".to_string()
}

fn show(t: &Tables, v: &Val) -> String {
    match v {
        Val::Nil => "Void:-".to_string(),
        Val::Bool(b) => format!("Bool:{}", if *b { 1 } else { 0 }),
        Val::U8(x) => format!("U8:{}", x),
        Val::U16(x) => format!("U16:{}", x),
        Val::U32(x) => format!("U32:{}", x),
        Val::U64(x) => format!("U64:{}", x),
        Val::Ip4(a) => format!("Ip4:{}", u32::from(*a)),
        Val::Sock4(s) => format!("Sock4:{}", ((u32::from(*s.ip()) as u64) << 16) | s.port() as u64),
        Val::Str(b) => {
            let bytes: &[u8] = b.as_ref();
            format!("Str:x{}", hex(bytes))
        }
        Val::Obj(o) => format!("Obj:{}", obj_index(t, o)),
        Val::Func(f) => format!("Func:{}", func_index(t, f)),
        Val::Method(o, f) => {
            let (a, b) = (obj_index(t, o), func_index(t, f));
            if a == b { format!("Method:{}", a) } else { format!("Method:{}/{}", a, b) }
        }
        Val::Pkt(p) => {
            let i = t.pkts.iter().position(|q| Rc::ptr_eq(p, q));
            format!("Pkt:{}", i.map_or("?".to_string(), |i| i.to_string()))
        }
        Val::PktGen(g) => {
            let i = t.gens.iter().position(|q| Rc::ptr_eq(g, q));
            format!("PktGen:{}", i.map_or("?".to_string(), |i| i.to_string()))
        }
        Val::TimeJump(x) => format!("TimeJump:{}", x),
    }
}

fn run_case(t: &Tables, line: &str) -> String {
    let mut toks = line.split_whitespace();
    let key = match toks.next() {
        Some(k) => k,
        None => return "BAD empty".to_string(),
    };
    let f = match t.by_key.get(key) {
        Some(f) => *f,
        None => return format!("BAD no such function {}", key),
    };
    let mut args = Vec::new();
    for a in toks {
        let parts: Vec<&str> = a.split(':').collect();
        if parts.len() != 3 {
            return format!("BAD arg {}", a);
        }
        let tag: u64 = match parts[2].parse() {
            Ok(x) => x,
            Err(_) => return format!("BAD tag {}", a),
        };
        let val = match make_val(t, parts[1], tag) {
            Ok(v) => v,
            Err(e) => return format!("BAD {}", e),
        };
        let name = if parts[0] == "_" { None } else { Some(parts[0].to_string()) };
        args.push(ArgSpec::new(name, val));
    }
    match guarded(|| f.argvec(None, args)) {
        Err(msg) => format!("PANIC {}", msg.replace('\n', " ")),
        Ok(Err(Error::TypeError)) => "ERR type".to_string(),
        Ok(Err(e)) => format!("ERR {:?}", e),
        Ok(Ok(av)) => {
            let (slots, extra) = argvec_parts(&av);
            let s: Vec<String> = slots.iter().map(|v| show(t, v)).collect();
            let e: Vec<String> = extra.iter().map(|v| show(t, v)).collect();
            format!("OK slots=[{}] extra=[{}]", s.join(","), e.join(","))
        }
    }
}

const ALL_TYPES: [ValType; 16] = [
    ValType::Void, ValType::Bool, ValType::U8, ValType::U16, ValType::U32, ValType::U64, ValType::Ip4,
    ValType::Sock4, ValType::Str, ValType::Type, ValType::Obj, ValType::Func, ValType::Method, ValType::Pkt,
    ValType::PktGen, ValType::TimeJump,
];

/// the real 16 x 16 relation (`C param arg 0|1`) and the nullable-option rule (`N param arg 0|1`)
fn compat_tables() {
    for p in ALL_TYPES.iter() {
        for a in ALL_TYPES.iter() {
            println!("C {:?} {:?} {}", p, a, if p.compatible_with(a) { 1 } else { 0 });
            println!("N {:?} {:?} {}", p, a, if ValDef::Type(*p).arg_compatible(a) { 1 } else { 0 });
        }
    }
}

/// the real `From<Val>` conversions and `Val::as_ref`, tried on one value of every kind:
/// `V <conversion> <kind> 0|1` (1 = defined, 0 = panics)
fn conv_tables(t: &Tables) {
    const KINDS: [&str; 15] = [
        "Void", "Bool", "U8", "U16", "U32", "U64", "Ip4", "Sock4", "Str", "Obj", "Func", "Method", "Pkt", "PktGen",
        "TimeJump",
    ];
    macro_rules! conv {
        ($name:expr, $ty:ty, $k:expr, $v:expr) => {{
            let v: Val = $v.clone();
            let ok = guarded(move || {
                let _x: $ty = v.into();
            })
            .is_ok();
            println!("V {} {} {}", $name, $k, if ok { 1 } else { 0 });
        }};
    }
    for k in KINDS.iter() {
        let v = make_val(t, k, 1).expect("kind");
        conv!("CBool", bool, k, v);
        conv!("CU8", u8, k, v);
        conv!("CU16", u16, k, v);
        conv!("CU32", u32, k, v);
        conv!("CU64", u64, k, v);
        conv!("CSock4", SocketAddrV4, k, v);
        conv!("CIp4", Ipv4Addr, k, v);
        conv!("CBuf", Buf, k, v);
        conv!("CPktGen", Rc<Vec<pkt::Packet>>, k, v);
        conv!("CPkt", Rc<pkt::Packet>, k, v);
        conv!("COptIp4", Option<Ipv4Addr>, k, v);
        conv!("COptU64", Option<u64>, k, v);
        conv!("COptU32", Option<u32>, k, v);
        conv!("COptU16", Option<u16>, k, v);
        conv!("COptU8", Option<u8>, k, v);
        conv!("COptBuf", Option<Buf>, k, v);
        let w = v.clone();
        let ok = guarded(move || {
            let r: &[u8] = w.as_ref();
            r.len()
        })
        .is_ok();
        println!("V CAsRef {} {}", k, if ok { 1 } else { 0 });
    }
}

fn main() {
    let argv: Vec<String> = std::env::args().collect();
    if argv.len() == 3 && argv[1] == "--compat" {
        compat_tables();
        return;
    }
    if argv.len() == 3 && argv[1] == "--conv" {
        conv_tables(&make_tables());
        return;
    }
    if argv.len() != 3 {
        eprintln!("usage: bindh <cases-file> <results-file>");
        std::process::exit(2);
    }
    let t = make_tables();
    let inp = BufReader::new(std::fs::File::open(&argv[1]).expect("open cases"));
    let mut out = BufWriter::new(std::fs::File::create(&argv[2]).expect("create results"));
    for line in inp.lines() {
        let line = line.expect("read");
        if line.trim().is_empty() {
            continue;
        }
        let r = run_case(&t, &line);
        writeln!(out, "{}", r).expect("write");
    }
    out.flush().expect("flush");
}
