//! C05 / C17 real side: literals through the real code.
//!
//!   lith strlit FILE   one literal body per line, hex ("-" = empty): the real `impl FromStr for Buf`
//!                      -> `OK <hex|->` | `ERR` | `PANIC` | `BADUTF8`
//!   lith std FILE      `dec|hex|ip4|bool <hex-of-text>`: the std parsers Val::from_token calls
//!                      (u64::from_str, u64::from_str_radix(_,16), Ipv4Addr::from_str, bool::from_str)
//!                      -> `OK <decimal>` | `ERR`
//!   lith tok FILE      `STR|INT|HEX|IP4|BOOL <hex-of-token-text>`: a real Token of that kind and text
//!                      (produced by the real Lexer from the spelled text) through the real
//!                      `Val::from_token` -> `OK <val>` | `ERR parse` | `PANIC` | `BADCASE why`
//!   lith prog FILE     source lines of one program, hex, separated by blanks: real Lexer + Parser
//!                      driven as cli.rs process_file drives them -> `OK n stmt ...` |
//!                      `ERR lex` | `ERR parse` | `PANIC`
//! Value and statement rendering is the one of parseh.rs / cmd_parse.ml.
use resynth::verif::*;
use rsharness::{guarded, hex, unhex};
use std::io::{BufRead, Write};
use std::net::Ipv4Addr;

fn hex_or_dash(b: &[u8]) -> String {
    if b.is_empty() {
        "-".to_string()
    } else {
        hex(b)
    }
}

fn val(v: &Val) -> String {
    match v {
        Val::Nil => "nil".to_string(),
        Val::Bool(b) => format!("bool:{}", if *b { 1 } else { 0 }),
        Val::U8(x) => format!("u8:{}", x),
        Val::U16(x) => format!("u16:{}", x),
        Val::U32(x) => format!("u32:{}", x),
        Val::U64(x) => format!("u64:{}", x),
        Val::Ip4(a) => format!("ip4:{}", u32::from(*a)),
        Val::Sock4(s) => format!("sock4:{}:{}", u32::from(*s.ip()), s.port()),
        Val::Str(b) => {
            let bytes: &[u8] = b.as_ref();
            format!("str:{}", hex_or_dash(bytes))
        }
        _ => "other".to_string(),
    }
}

fn loc(l: Loc) -> String {
    format!("@{}:{}", l.line(), l.col())
}

fn path(o: &ObjectRef) -> String {
    format!("{}|{}", o.modules.join("::"), o.components.join("."))
}

fn expr(e: &Expr, out: &mut String) {
    match e {
        Expr::Nil => out.push_str("nil"),
        Expr::Literal(l, v) => out.push_str(&format!("lit{}({})", loc(*l), val(v))),
        Expr::ObjectRef(o) => out.push_str(&format!("ref{}({})", loc(o.loc), path(o))),
        Expr::Call(c) => {
            out.push_str(&format!("call{}({};", loc(c.obj.loc), path(&c.obj)));
            for (i, a) in c.args.iter().enumerate() {
                if i > 0 {
                    out.push(',');
                }
                match &a.name {
                    Some(n) => out.push_str(n),
                    None => out.push('_'),
                }
                out.push('=');
                expr(&a.expr, out);
            }
            out.push(')');
        }
        Expr::Slash(a, b) => {
            out.push_str("slash(");
            expr(a, out);
            out.push(',');
            expr(b, out);
            out.push(')');
        }
    }
}

fn stmt(s: &Stmt) -> String {
    let mut out = String::new();
    match s {
        Stmt::Import(i) => out.push_str(&format!("import{}({})", loc(i.loc), i.module)),
        Stmt::Assign(a) => {
            out.push_str(&format!("let{}({},", loc(a.loc), a.target));
            expr(&a.rvalue, &mut out);
            out.push(')');
        }
        Stmt::Expr(e) => {
            out.push_str("expr(");
            expr(e, &mut out);
            out.push(')');
        }
    }
    out
}

// ---------------------------------------------------------------- strlit

fn run_strlit(line: &str) -> String {
    let bytes = unhex(line);
    let s = match String::from_utf8(bytes) {
        Ok(s) => s,
        Err(_) => return "BADUTF8".to_string(),
    };
    match guarded(|| s.parse::<Buf>()) {
        Err(_) => "PANIC".to_string(),
        Ok(Err(_)) => "ERR".to_string(),
        Ok(Ok(b)) => {
            let r: &[u8] = b.as_ref();
            format!("OK {}", hex_or_dash(r))
        }
    }
}

// ---------------------------------------------------------------- std parsers

fn run_std(line: &str) -> String {
    let mut it = line.split_whitespace();
    let (kind, h) = match (it.next(), it.next()) {
        (Some(k), Some(h)) => (k, h),
        _ => return "BADCASE".to_string(),
    };
    let s = match String::from_utf8(unhex(h)) {
        Ok(s) => s,
        Err(_) => return "BADUTF8".to_string(),
    };
    let r: Option<String> = match kind {
        "dec" => s.parse::<u64>().ok().map(|v| v.to_string()),
        "hex" => u64::from_str_radix(&s, 16).ok().map(|v| v.to_string()),
        "ip4" => s.parse::<Ipv4Addr>().ok().map(|a| u32::from(a).to_string()),
        "bool" => s.parse::<bool>().ok().map(|b| if b { "1".to_string() } else { "0".to_string() }),
        _ => return "BADCASE".to_string(),
    };
    match r {
        Some(v) => format!("OK {}", v),
        None => "ERR".to_string(),
    }
}

// ---------------------------------------------------------------- tokens

fn kind_of(s: &str) -> Option<TokType> {
    Some(match s {
        "STR" => TokType::StringLiteral,
        "INT" => TokType::IntegerLiteral,
        "HEX" => TokType::HexIntegerLiteral,
        "IP4" => TokType::IPv4Literal,
        "BOOL" => TokType::BooleanLiteral,
        _ => return None,
    })
}

fn run_tok(line: &str) -> String {
    let mut it = line.split_whitespace();
    let (k, h) = match (it.next(), it.next()) {
        (Some(k), Some(h)) => (k, h),
        _ => return "BADCASE fields".to_string(),
    };
    let kind = match kind_of(k) {
        Some(k) => k,
        None => return "BADCASE kind".to_string(),
    };
    let text = match String::from_utf8(unhex(h)) {
        Ok(s) => s,
        Err(_) => return "BADUTF8".to_string(),
    };
    // the token is made by the real lexer: a string literal stays pending until the next token
    let src1 = if kind == TokType::StringLiteral {
        format!("\"{}\"", text)
    } else {
        text.clone()
    };
    let src2 = ";".to_string();
    let r = guarded(|| {
        let mut lx = Lexer::default();
        let mut a = match lx.line(1, &src1) {
            Ok(a) => a,
            Err(_) => return Err("lex error".to_string()),
        };
        let tok = if kind == TokType::StringLiteral {
            if !a.is_empty() {
                return Err("string literal did not stay pending".to_string());
            }
            let mut b = match lx.line(2, &src2) {
                Ok(b) => b,
                Err(_) => return Err("lex error".to_string()),
            };
            if b.len() != 2 {
                return Err(format!("lexed to {} tokens", b.len()));
            }
            b.swap_remove(0)
        } else {
            if a.len() != 1 {
                return Err(format!("lexed to {} tokens", a.len()));
            }
            a.pop().unwrap()
        };
        if tok.tok_type() != kind {
            return Err(format!("lexed as {:?}", tok.tok_type()));
        }
        if tok.optval().map(|c| c.to_string()).as_deref() != Some(text.as_str()) {
            return Err("text mismatch".to_string());
        }
        Ok(match Val::from_token(&tok) {
            Ok(v) => format!("OK {}", val(&v)),
            Err(Error::ParseError) => "ERR parse".to_string(),
            Err(e) => format!("ERR other:{:?}", e),
        })
    });
    match r {
        Err(_) => "PANIC".to_string(),
        Ok(Err(why)) => format!("BADCASE {}", why),
        Ok(Ok(s)) => s,
    }
}

// ---------------------------------------------------------------- whole programs (lexer + parser)

enum ProgOut {
    Ok(Vec<Stmt>),
    Lex,
    Parse(String),
}

fn run_prog(line: &str) -> String {
    let mut srcs: Vec<String> = Vec::new();
    for h in line.split_whitespace() {
        match String::from_utf8(unhex(h)) {
            Ok(s) => srcs.push(s),
            Err(_) => return "BADUTF8".to_string(),
        }
    }
    let r = guarded(|| {
        let mut lex = Lexer::default();
        let mut parser = Parser::default();
        let mut stmts: Vec<Stmt> = Vec::new();
        for (i, src) in srcs.iter().enumerate() {
            let toks = match lex.line(i + 1, src) {
                Ok(t) => t,
                Err(_) => return ProgOut::Lex,
            };
            for t in toks.iter() {
                if let Err(e) = parser.feed(t) {
                    return ProgOut::Parse(format!("{:?}", e));
                }
            }
            stmts.extend(parser.get_results());
        }
        if let Err(e) = parser.feed(&EOF) {
            return ProgOut::Parse(format!("{:?}", e));
        }
        stmts.extend(parser.get_results());
        ProgOut::Ok(stmts)
    });
    match r {
        Err(m) => format!("PANIC {}", m.replace('\n', " ")),
        Ok(ProgOut::Lex) => "ERR lex".to_string(),
        Ok(ProgOut::Parse(e)) => {
            if e == "ParseError" {
                "ERR parse".to_string()
            } else {
                format!("ERR other:{}", e)
            }
        }
        Ok(ProgOut::Ok(stmts)) => {
            let mut s = format!("OK {}", stmts.len());
            for st in stmts.iter() {
                s.push(' ');
                s.push_str(&stmt(st));
            }
            s
        }
    }
}

fn main() {
    let args: Vec<String> = std::env::args().collect();
    if args.len() < 2 {
        eprintln!("usage: lith <strlit|std|tok|prog> [FILE|-]");
        std::process::exit(2);
    }
    let f: fn(&str) -> String = match args[1].as_str() {
        "strlit" => run_strlit,
        "std" => run_std,
        "tok" => run_tok,
        "prog" => run_prog,
        _ => {
            eprintln!("unknown mode {}", args[1]);
            std::process::exit(2);
        }
    };
    let stdin = std::io::stdin();
    let input: Box<dyn BufRead> = if args.len() > 2 && args[2] != "-" {
        Box::new(std::io::BufReader::new(std::fs::File::open(&args[2]).expect("open case file")))
    } else {
        Box::new(stdin.lock())
    };
    let out = std::io::stdout();
    let mut out = std::io::BufWriter::with_capacity(1 << 16, out.lock());
    for l in input.lines() {
        let l = l.expect("read");
        writeln!(out, "{}", f(&l)).unwrap();
    }
    out.flush().unwrap();
}
