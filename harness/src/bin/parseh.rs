//! C09 real side: feed the real `Parser` token by token and print the canonical rendering of the
//! statements it returns.
//!
//! Input: one case per line, tokens separated by blanks:
//!   KIND[=hex-of-token-text][@line:col]      or      |      (line break: call get_results here)
//! KIND is one of EOF LP RP DOT DC COLON SEMI EQ COMMA SLASH IMPORT LET BOOL ID IP4 STR HEX INT.
//! Token fields are crate-private, so every token is produced by the real `Lexer` from a line of
//! source text spelled for it alone (blanks up to the wanted column, then the spelling); the
//! result is checked to be exactly one token of the intended kind, text and location
//! (`BADCASE` otherwise).  After the last token the `EOF` constant is fed.
//! Output per case: `OK n stmt ...` | `ERR idx` | `PANIC msg` | `BADCASE why`.
use resynth::verif::*;
use rsharness::{guarded, hex, unhex};
use std::io::{BufRead, Write};

enum Item {
    Break,
    Eof,
    Tok {
        kind: TokType,
        text: Option<String>,
        line: usize,
        col: usize,
    },
}

fn kind_of(s: &str) -> Option<TokType> {
    Some(match s {
        "EOF" => TokType::Eof,
        "LP" => TokType::LParen,
        "RP" => TokType::RParen,
        "DOT" => TokType::Dot,
        "DC" => TokType::DoubleColon,
        "COLON" => TokType::Colon,
        "SEMI" => TokType::SemiColon,
        "EQ" => TokType::Equals,
        "COMMA" => TokType::Comma,
        "SLASH" => TokType::Slash,
        "IMPORT" => TokType::ImportKeyword,
        "LET" => TokType::LetKeyword,
        "BOOL" => TokType::BooleanLiteral,
        "ID" => TokType::Identifier,
        "IP4" => TokType::IPv4Literal,
        "STR" => TokType::StringLiteral,
        "HEX" => TokType::HexIntegerLiteral,
        "INT" => TokType::IntegerLiteral,
        _ => return None,
    })
}

fn fixed_spelling(k: TokType) -> Option<&'static str> {
    Some(match k {
        TokType::LParen => "(",
        TokType::RParen => ")",
        TokType::Dot => ".",
        TokType::DoubleColon => "::",
        TokType::Colon => ":",
        TokType::SemiColon => ";",
        TokType::Equals => "=",
        TokType::Comma => ",",
        TokType::Slash => "/",
        TokType::ImportKeyword => "import",
        TokType::LetKeyword => "let",
        _ => return None,
    })
}

fn parse_case(line: &str) -> Result<Vec<Item>, String> {
    let mut items = Vec::new();
    let mut lno = 1usize;
    let mut idx_in_line = 0usize;
    for w in line.split_whitespace() {
        if w == "|" {
            items.push(Item::Break);
            lno += 1;
            idx_in_line = 0;
            continue;
        }
        let (body, loc) = match w.find('@') {
            Some(i) => (&w[..i], Some(&w[i + 1..])),
            None => (w, None),
        };
        let (k, text) = match body.find('=') {
            Some(i) => (&body[..i], Some(&body[i + 1..])),
            None => (body, None),
        };
        let kind = kind_of(k).ok_or_else(|| format!("unknown kind {}", k))?;
        let (l, c) = match loc {
            Some(s) => {
                let mut it = s.split(':');
                let l = it.next().and_then(|x| x.parse().ok()).ok_or("bad loc")?;
                let c = it.next().and_then(|x| x.parse().ok()).ok_or("bad loc")?;
                (l, c)
            }
            None => (lno, idx_in_line + 1),
        };
        idx_in_line += 1;
        if kind == TokType::Eof {
            items.push(Item::Eof);
            continue;
        }
        let text = match text {
            Some(h) => Some(String::from_utf8(unhex(h)).map_err(|_| "token text is not UTF-8".to_string())?),
            None => None,
        };
        if fixed_spelling(kind).is_none() && text.is_none() {
            return Err(format!("kind {} needs a text", k));
        }
        if c == 0 {
            return Err("column 0".to_string());
        }
        items.push(Item::Tok {
            kind,
            text,
            line: l,
            col: c,
        });
    }
    Ok(items)
}

/// (first source line, second source line) for one token
fn sources(items: &[Item]) -> Vec<(String, String)> {
    items
        .iter()
        .map(|it| match it {
            Item::Tok {
                kind, text, col, ..
            } => {
                let pad = " ".repeat(col - 1);
                if *kind == TokType::StringLiteral {
                    (
                        format!("\"{}\"", text.as_ref().unwrap()),
                        format!("{};", pad),
                    )
                } else {
                    let sp = match fixed_spelling(*kind) {
                        Some(s) => s.to_string(),
                        None => text.as_ref().unwrap().clone(),
                    };
                    (format!("{}{}", pad, sp), String::new())
                }
            }
            _ => (String::new(), String::new()),
        })
        .collect()
}

fn lex_tokens<'a>(items: &[Item], srcs: &'a [(String, String)]) -> Result<Vec<Option<Token<'a>>>, String> {
    let mut out = Vec::new();
    for (it, src) in items.iter().zip(srcs.iter()) {
        match it {
            Item::Break => out.push(None),
            Item::Eof => out.push(Some(EOF.clone())),
            Item::Tok {
                kind,
                text,
                line,
                col,
            } => {
                let mut lx = Lexer::default();
                let tok = if *kind == TokType::StringLiteral {
                    let a = lx.line(*line, &src.0).map_err(|_| "lex error".to_string())?;
                    if !a.is_empty() {
                        return Err("string literal did not stay pending".to_string());
                    }
                    let mut b = lx.line(*line, &src.1).map_err(|_| "lex error".to_string())?;
                    if b.len() != 2 {
                        return Err(format!("string literal lexed to {} tokens", b.len()));
                    }
                    b.swap_remove(0)
                } else {
                    let mut a = lx.line(*line, &src.0).map_err(|_| "lex error".to_string())?;
                    if a.len() != 1 {
                        return Err(format!("spelling {:?} lexed to {} tokens", src.0, a.len()));
                    }
                    a.pop().unwrap()
                };
                if tok.tok_type() != *kind {
                    return Err(format!("spelling {:?} lexed as {:?}", src.0, tok.tok_type()));
                }
                if tok.loc().line() != *line || tok.loc().col() != *col {
                    return Err("location mismatch".to_string());
                }
                if fixed_spelling(*kind).is_none() {
                    let got = tok.optval().map(|c| c.to_string());
                    if got.as_ref() != text.as_ref() {
                        return Err(format!("text mismatch {:?} vs {:?}", got, text));
                    }
                }
                out.push(Some(tok));
            }
        }
    }
    Ok(out)
}

// ---------------------------------------------------------------- canonical rendering

fn loc(l: Loc) -> String {
    format!("@{}:{}", l.line(), l.col())
}

fn val(v: &Val) -> String {
    match v {
        Val::Nil => "nil".to_string(),
        Val::Bool(b) => format!("bool:{}", if *b { 1 } else { 0 }),
        Val::U8(x) => format!("u8:{}", x),
        Val::U16(x) => format!("u16:{}", x),
        Val::U32(x) => format!("u32:{}", x),
        Val::U64(x) => format!("u64:{}", x),
        Val::Ip4(a) => format!("ip4:{}", u32::from(*a)),
        Val::Sock4(s) => format!("sock4:{}:{}", u32::from(*s.ip()), s.port()),
        Val::Str(b) => {
            let bytes: &[u8] = b.as_ref();
            if bytes.is_empty() {
                "str:-".to_string()
            } else {
                format!("str:{}", hex(bytes))
            }
        }
        _ => "other".to_string(),
    }
}

fn path(o: &ObjectRef) -> String {
    format!("{}|{}", o.modules.join("::"), o.components.join("."))
}

fn expr(e: &Expr, out: &mut String) {
    match e {
        Expr::Nil => out.push_str("nil"),
        Expr::Literal(l, v) => {
            out.push_str(&format!("lit{}({})", loc(*l), val(v)));
        }
        Expr::ObjectRef(o) => {
            out.push_str(&format!("ref{}({})", loc(o.loc), path(o)));
        }
        Expr::Call(c) => {
            out.push_str(&format!("call{}({};", loc(c.obj.loc), path(&c.obj)));
            for (i, a) in c.args.iter().enumerate() {
                if i > 0 {
                    out.push(',');
                }
                match &a.name {
                    Some(n) => out.push_str(n),
                    None => out.push('_'),
                }
                out.push('=');
                expr(&a.expr, out);
            }
            out.push(')');
        }
        Expr::Slash(a, b) => {
            out.push_str("slash(");
            expr(a, out);
            out.push(',');
            expr(b, out);
            out.push(')');
        }
    }
}

fn stmt(s: &Stmt) -> String {
    let mut out = String::new();
    match s {
        Stmt::Import(i) => out.push_str(&format!("import{}({})", loc(i.loc), i.module)),
        Stmt::Assign(a) => {
            out.push_str(&format!("let{}({},", loc(a.loc), a.target));
            expr(&a.rvalue, &mut out);
            out.push(')');
        }
        Stmt::Expr(e) => {
            out.push_str("expr(");
            expr(e, &mut out);
            out.push(')');
        }
    }
    out
}

enum Outcome {
    Accepted(Vec<Stmt>),
    Rejected(usize, String),
}

fn run_case(line: &str) -> String {
    let items = match parse_case(line) {
        Ok(i) => i,
        Err(e) => return format!("BADCASE {}", e),
    };
    let srcs = sources(&items);
    let toks = match guarded(|| lex_tokens(&items, &srcs)) {
        Ok(Ok(t)) => t,
        Ok(Err(e)) => return format!("BADCASE {}", e),
        Err(m) => return format!("BADCASE lexer panicked: {}", m),
    };
    let r = guarded(|| {
        let mut parser = Parser::default();
        let mut stmts: Vec<Stmt> = Vec::new();
        let mut idx = 0usize;
        for t in toks.iter() {
            match t {
                None => stmts.extend(parser.get_results()),
                Some(tok) => {
                    if let Err(e) = parser.feed(tok) {
                        return Outcome::Rejected(idx, format!("{:?}", e));
                    }
                    idx += 1;
                }
            }
        }
        stmts.extend(parser.get_results());
        if let Err(e) = parser.feed(&EOF) {
            return Outcome::Rejected(idx, format!("{:?}", e));
        }
        stmts.extend(parser.get_results());
        Outcome::Accepted(stmts)
    });
    match r {
        Err(m) => format!("PANIC {}", m.replace('\n', " ")),
        Ok(Outcome::Rejected(i, e)) => {
            if e == "ParseError" {
                format!("ERR {}", i)
            } else {
                format!("ERR {} other:{}", i, e)
            }
        }
        Ok(Outcome::Accepted(stmts)) => {
            // rendering is outside the guarded region on purpose: it cannot panic on any tree
            let mut s = format!("OK {}", stmts.len());
            for st in stmts.iter() {
                s.push(' ');
                s.push_str(&stmt(st));
            }
            s
        }
    }
}

fn main() {
    let args: Vec<String> = std::env::args().collect();
    let stdin = std::io::stdin();
    let input: Box<dyn BufRead> = if args.len() > 1 && args[1] != "-" {
        Box::new(std::io::BufReader::new(std::fs::File::open(&args[1]).expect("open case file")))
    } else {
        Box::new(stdin.lock())
    };
    let out = std::io::stdout();
    let mut out = std::io::BufWriter::new(out.lock());
    for l in input.lines() {
        let l = l.expect("read");
        writeln!(out, "{}", run_case(&l)).unwrap();
    }
}
