//! Drive the real lexer (resynth::verif::Lexer) over cases read from a file or stdin.
//!
//! One case per input line = the source lines fed to one Lexer instance, hex-encoded ("-" = the
//! empty line), separated by spaces; lines are numbered from 1 and fed in order, the case stops at
//! the first error, as cli.rs does.  One canonical output line per case (same format as
//! `rsmodel_lex lex`):
//!   <line result> | <line result> | ... ; LOC l:c
//! line result = `OK {kind@l:c[=hexval]}` or `ERR@l:c` (Lexer::loc() after the error) or `PANIC`.
//! A source line that is not valid UTF-8 cannot be given to Lexer::line (it takes &str): `BADUTF8`.
use resynth::verif::{Lexer, TokType, Token};
use rsharness::{guarded, hex, unhex};
use std::fmt::Write as _;
use std::io::{BufRead, BufWriter, Write};

fn kind_name(t: TokType) -> &'static str {
    match t {
        TokType::Eof => "Eof",
        TokType::Whitespace => "Whitespace",
        TokType::HashComment => "HashComment",
        TokType::CppComment => "CppComment",
        TokType::NewLine => "NewLine",
        TokType::LParen => "LParen",
        TokType::RParen => "RParen",
        TokType::Dot => "Dot",
        TokType::DoubleColon => "DoubleColon",
        TokType::Colon => "Colon",
        TokType::SemiColon => "SemiColon",
        TokType::Equals => "Equals",
        TokType::Comma => "Comma",
        TokType::Slash => "Slash",
        TokType::ImportKeyword => "ImportKeyword",
        TokType::LetKeyword => "LetKeyword",
        TokType::BooleanLiteral => "BooleanLiteral",
        TokType::Identifier => "Identifier",
        TokType::IPv4Literal => "IPv4Literal",
        TokType::StringLiteral => "StringLiteral",
        TokType::HexIntegerLiteral => "HexIntegerLiteral",
        TokType::IntegerLiteral => "IntegerLiteral",
        TokType::Max => "Max",
    }
}

fn tok_str(out: &mut String, t: &Token) {
    let loc = t.loc();
    let _ = write!(out, " {}@{}:{}", kind_name(t.tok_type()), loc.line(), loc.col());
    if let Some(v) = t.optval() {
        out.push('=');
        if v.is_empty() {
            out.push('-');
        } else {
            out.push_str(&hex(v.as_bytes()));
        }
    }
}

fn run_case(case: &str, out: &mut String) {
    let mut lex = Lexer::default();
    let mut first = true;
    for (i, h) in case.split_whitespace().enumerate() {
        if !first {
            out.push_str(" | ");
        }
        first = false;
        let bytes = unhex(h);
        let line = match std::str::from_utf8(&bytes) {
            Ok(s) => s,
            Err(_) => {
                out.push_str("BADUTF8");
                return;
            }
        };
        // every call into the lexer (and the rendering of its tokens) is guarded
        let r = guarded(|| match lex.line(i + 1, line) {
            Ok(toks) => {
                let mut s = String::from("OK");
                for t in toks.iter() {
                    tok_str(&mut s, t);
                }
                (true, s)
            }
            Err(_) => {
                let l = lex.loc();
                (false, format!("ERR@{}:{}", l.line(), l.col()))
            }
        });
        match r {
            Ok((true, s)) => out.push_str(&s),
            Ok((false, s)) => {
                out.push_str(&s);
                break;
            }
            Err(_) => {
                out.push_str("PANIC");
                return;
            }
        }
    }
    match guarded(|| lex.loc()) {
        Ok(l) => {
            let _ = write!(out, " ; LOC {}:{}", l.line(), l.col());
        }
        Err(_) => out.push_str(" ; PANIC"),
    }
}

fn main() {
    let args: Vec<String> = std::env::args().collect();
    let stdin = std::io::stdin();
    let rd: Box<dyn BufRead> = if args.len() > 1 && args[1] != "-" {
        Box::new(std::io::BufReader::new(
            std::fs::File::open(&args[1]).expect("open case file"),
        ))
    } else {
        Box::new(stdin.lock())
    };
    let so = std::io::stdout();
    let mut w = BufWriter::with_capacity(1 << 16, so.lock());
    let mut out = String::new();
    for l in rd.lines() {
        let l = l.expect("read");
        out.clear();
        run_case(&l, &mut out);
        out.push('\n');
        w.write_all(out.as_bytes()).expect("write");
    }
    w.flush().expect("flush");
}
