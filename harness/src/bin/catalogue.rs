//! Dump the real standard-library symbol table (by execution, not by reading source) as JSON.
use resynth::verif::*;
use rsharness::hex;

fn vt(t: ValType) -> String {
    format!("{:?}", t)
}

fn valdef(v: &ValDef) -> String {
    match v {
        ValDef::Nil => "{\"t\":\"Nil\"}".to_string(),
        ValDef::Bool(b) => format!("{{\"t\":\"Bool\",\"v\":{}}}", if *b { 1 } else { 0 }),
        ValDef::U8(x) => format!("{{\"t\":\"U8\",\"v\":{}}}", x),
        ValDef::U16(x) => format!("{{\"t\":\"U16\",\"v\":{}}}", x),
        ValDef::U32(x) => format!("{{\"t\":\"U32\",\"v\":{}}}", x),
        ValDef::U64(x) => format!("{{\"t\":\"U64\",\"v\":\"{}\"}}", x),
        ValDef::Ip4(a) => format!("{{\"t\":\"Ip4\",\"v\":{}}}", u32::from(*a)),
        ValDef::Sock4(s) => format!(
            "{{\"t\":\"Sock4\",\"v\":{},\"p\":{}}}",
            u32::from(*s.ip()),
            s.port()
        ),
        ValDef::Str(s) => format!("{{\"t\":\"Str\",\"hex\":\"{}\"}}", hex(s)),
        ValDef::Type(t) => format!("{{\"t\":\"Type\",\"ty\":\"{}\"}}", vt(*t)),
    }
}

fn func(key: &str, f: &FuncDef, out: &mut Vec<String>) {
    let mut args = Vec::new();
    for a in f.args.iter() {
        let pos = match (f.arg_pos)(a.name) {
            Some(i) => i as i64,
            None => -1,
        };
        match a.typ {
            ArgDecl::Positional(t) => args.push(format!(
                "{{\"name\":\"{}\",\"kind\":\"pos\",\"type\":\"{}\",\"arg_pos\":{}}}",
                a.name,
                vt(t),
                pos
            )),
            ArgDecl::Optional(d) => args.push(format!(
                "{{\"name\":\"{}\",\"kind\":\"opt\",\"type\":\"{}\",\"dfl\":{},\"shown\":\"{}\",\"arg_pos\":{}}}",
                a.name,
                vt(d.val_type()),
                valdef(&d),
                hex(format!("{}", a.typ).as_bytes()),
                pos
            )),
        }
    }
    out.push(format!(
        "{{\"key\":\"{}\",\"name\":\"{}\",\"ret\":\"{}\",\"min_args\":{},\"collect\":\"{}\",\"args\":[{}],\"unknown_pos\":{},\"doc\":\"{}\",\"display\":\"{}\"}}",
        key,
        f.name,
        vt(f.return_type),
        f.min_args,
        vt(f.collect_type),
        args.join(","),
        match (f.arg_pos)("__no_such_arg__") { Some(_) => 1, None => 0 },
        hex(f.doc.as_bytes()),
        hex(format!("{}", f).as_bytes()),
    ));
}

fn walk(
    path: &str,
    m: &'static Module,
    mods: &mut Vec<String>,
    funcs: &mut Vec<String>,
    classes: &mut Vec<String>,
    consts: &mut Vec<String>,
) {
    let mut syms = Vec::new();
    for sd in m.symtab.iter() {
        let looked = match (m.lookup)(sd.name) { Some(i) => i as i64, None => -1 };
        let child = if path.is_empty() {
            sd.name.to_string()
        } else {
            format!("{}::{}", path, sd.name)
        };
        match sd.sym {
            Symbol::Module(c) => {
                syms.push(format!("{{\"name\":\"{}\",\"kind\":\"module\",\"lookup\":{}}}", sd.name, looked));
                walk(&child, c, mods, funcs, classes, consts);
            }
            Symbol::Func(f) => {
                syms.push(format!("{{\"name\":\"{}\",\"kind\":\"func\",\"lookup\":{}}}", sd.name, looked));
                func(&child, f, funcs);
            }
            Symbol::Class(c) => {
                syms.push(format!("{{\"name\":\"{}\",\"kind\":\"class\",\"lookup\":{}}}", sd.name, looked));
                let mut ms = Vec::new();
                for md in c.symtab.iter() {
                    let ml = match (c.lookup)(md.name) { Some(i) => i as i64, None => -1 };
                    if let Symbol::Func(f) = md.sym {
                        let k = format!("{}.{}", child, md.name);
                        func(&k, f, funcs);
                        ms.push(format!("{{\"name\":\"{}\",\"key\":\"{}\",\"lookup\":{}}}", md.name, k, ml));
                    } else {
                        ms.push(format!("{{\"name\":\"{}\",\"key\":null,\"lookup\":{}}}", md.name, ml));
                    }
                }
                classes.push(format!(
                    "{{\"key\":\"{}\",\"name\":\"{}\",\"methods\":[{}],\"doc\":\"{}\"}}",
                    child,
                    c.name,
                    ms.join(","),
                    hex(c.doc.as_bytes())
                ));
            }
            Symbol::Val(v) => {
                syms.push(format!("{{\"name\":\"{}\",\"kind\":\"val\",\"lookup\":{}}}", sd.name, looked));
                consts.push(format!(
                    "{{\"path\":\"{}\",\"val\":{},\"shown\":\"{}\"}}",
                    child,
                    valdef(&v),
                    hex(format!("({}){}", v.val_type(), v).as_bytes())
                ));
            }
        }
    }
    mods.push(format!(
        "{{\"path\":\"{}\",\"name\":\"{}\",\"syms\":[{}],\"doc\":\"{}\"}}",
        path,
        m.name,
        syms.join(","),
        hex(m.doc.as_bytes())
    ));
}

fn main() {
    let root = stdlib_root();
    let (mut mods, mut funcs, mut classes, mut consts) = (Vec::new(), Vec::new(), Vec::new(), Vec::new());
    walk("", root, &mut mods, &mut funcs, &mut classes, &mut consts);
    println!("{{\"modules\":[\n{}\n],\n\"funcs\":[\n{}\n],\n\"classes\":[\n{}\n],\n\"consts\":[\n{}\n]}}",
        mods.join(",\n"), funcs.join(",\n"), classes.join(",\n"), consts.join(",\n"));
}
