#!/bin/sh
# usage: selftest.sh <patch file> <property> [tier]   -- apply a patch to a scratch worktree of /repo, run the
# check against it, report whether a VIOLATION was raised, and remove the worktree again.
set -u
PATCH="$(realpath "$1")"; PROP="$2"; TIER="${3:---quick}"
TAG="st$$"
WT="/tmp/wt_$TAG"
git -C /repo worktree add -q --detach "$WT" HEAD || exit 2
if ! git -C "$WT" apply "$PATCH"; then echo "SELFTEST patch does not apply"; git -C /repo worktree remove --force "$WT"; exit 2; fi
cd /verif
VERIF_REPO="$WT" VERIF_BUILD="/verif/.build/alt_$TAG" ./check "$PROP" "$TIER" > "/verif/.build/selftest_$TAG.out" 2>&1
RC=$?
grep -E "^VIOLATION|^KNOWN-FINDING|  -> " "/verif/.build/selftest_$TAG.out" | head -8
tail -1 "/verif/.build/selftest_$TAG.out"
git -C /repo worktree remove --force "$WT"
rm -rf "/verif/.build/alt_$TAG" "/verif/.build/selftest_$TAG.out"
if [ $RC -ne 0 ]; then echo "SELFTEST $(basename "$PATCH") on $PROP: DETECTED (exit $RC)"; else echo "SELFTEST $(basename "$PATCH") on $PROP: MISSED"; fi
