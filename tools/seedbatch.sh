#!/bin/bash
# usage: seedbatch.sh <seeded-id> ... : run the check of each seed's own property against it, store result.json
cd /verif
for S in "$@"; do
  D=/verif/seeded/$S
  [ -f $D/patch.diff ] || continue
  python3 tools/seedrun.py run $D > $D/result.json 2> $D/result.err
  python3 - "$S" <<'PY'
import json,sys
s=sys.argv[1]
try:
    d=json.load(open('/verif/seeded/%s/result.json'%s))
    for p,r in d.items():
        print(s,p,'DETECTED' if r['detected'] else 'MISSED', r['seconds'], (r['first'] or r['tail'] or [''])[0][:150])
except Exception as e:
    print(s,'ERROR',e)
PY
done
