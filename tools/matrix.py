#!/usr/bin/env python3
"""Print the catch matrix of /verif/seeded as markdown (from meta.json + result.json [+ result_extra.json])."""
import json, os, sys
root = os.path.join(os.path.dirname(os.path.dirname(os.path.abspath(__file__))), "seeded")
rows = []
for s in sorted(os.listdir(root)):
    d = os.path.join(root, s)
    try:
        meta = json.load(open(os.path.join(d, "meta.json")))
    except Exception:
        continue
    res = {}
    for fn in ("result.json", "result_extra.json"):
        try:
            res.update(json.load(open(os.path.join(d, fn))))
        except Exception:
            pass
    caught = []
    for p, r in sorted(res.items()):
        if r.get("detected"):
            v = (r.get("violations") or [""])[0]
            kind = "no-failing-input-found" if "no-failing-input-found" in v else "replay"
            caught.append("%s (%s)" % (p, kind))
    title = meta.get("title", "").replace("|", "/")[:110]
    files = ",".join(os.path.basename(f) for f in meta.get("files", []))[:40]
    rows.append((s, title, files, ", ".join(caught) if caught else "**missed**"))
print("| seed | change | file | caught by |")
print("| --- | --- | --- | --- |")
for r in rows:
    print("| %s | %s | %s | %s |" % r)
n = len(rows)
m = sum(1 for r in rows if r[3] == "**missed**")
print("\n%d seeded changes, %d caught, %d missed" % (n, n - m, m))
