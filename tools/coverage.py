#!/usr/bin/env python3
"""Union, over the evidence files of all checks, of the library entry points the differential runs went through (the
extracted model's own call trace), against the regenerated catalogue.  usage: tools/coverage.py"""
import glob, json, os, re
root = os.path.dirname(os.path.dirname(os.path.abspath(__file__)))
keys, per = set(), {}
for f in sorted(glob.glob(os.path.join(root, "evidence", "*.json"))):
    m = re.search(r'"library_keys_exercised_by_the_model": \[(.*?)\]', json.dumps(json.load(open(f))))
    if m:
        ks = set(json.loads("[" + m.group(1) + "]"))
        per[os.path.basename(f)[:-5]] = len(ks)
        keys |= ks
cat = json.load(open(os.path.join(root, ".build", "catalogue.json")))
allk = {f["key"] for f in cat["funcs"]}
print("per check:", per)
print("union: %d of %d library keys; never exercised: %s" % (len(keys & allk), len(allk), sorted(allk - keys)))
