#!/bin/bash
# usage: seedall.sh [-P n] <seeded-id> ... : run each seed's own check (quick tier) against it, n at a time;
# writes seeded/<id>/result.json and prints one line per seed
P=3
if [ "$1" = "-P" ]; then P=$2; shift 2; fi
cd /verif
printf "%s\n" "$@" | xargs -P $P -I{} ./tools/seedbatch.sh {}
