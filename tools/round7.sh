#!/bin/bash
# usage: round5.sh Cxx ... : confirm the round-6 deliveries of each property (kept as seeded/Cxx-16..18), remove the agent's
# scratch worktree, run the property's quick check against each confirmed change
cd /verif
for P in "$@"; do
  tools/seedconfirm.sh /tmp/seedout7 18 $P > .build/confirm_r7_$P.log 2>&1
  cat .build/confirm_r7_$P.log
  git -C /repo worktree remove --force /tmp/seed7_$P 2>/dev/null
  ids=$(grep 'confirmed=True' .build/confirm_r7_$P.log | cut -d' ' -f1)
  [ -n "$ids" ] && tools/seedall.sh -P 3 $ids
done
