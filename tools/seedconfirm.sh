#!/bin/bash
# usage: seedconfirm.sh <delivery-root> <offset> Cxx ... : confirm each delivered change under <root>/Cxx/{1,2,3} in a scratch
# worktree (builds, passes the test suite, its demo fails on the patched build and passes on the clean one) and keep the
# confirmed ones as /verif/seeded/Cxx-<n+offset>/
ROOT=$1; OFF=$2; shift 2
for P in "$@"; do
  for N in 1 2 3; do
    D=$ROOT/$P/$N
    [ -f $D/patch.diff ] || continue
    python3 /verif/tools/seedrun.py confirm $D > $D/confirm.json 2>/dev/null
    ok=$(python3 -c "import json;print(json.load(open('$D/confirm.json')).get('confirmed'))" 2>/dev/null)
    M=$((N+OFF))
    echo "$P-$M confirmed=$ok"
    if [ "$ok" = "True" ]; then
      mkdir -p /verif/seeded/$P-$M
      cp $D/patch.diff $D/demo.sh $D/meta.json $D/confirm.json /verif/seeded/$P-$M/
    fi
  done
done
