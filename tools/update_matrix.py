#!/usr/bin/env python3
"""Replace the catch matrix in DESIGN.md (section 10.8) by the current output of tools/matrix.py."""
import os, re, subprocess
root = os.path.dirname(os.path.dirname(os.path.abspath(__file__)))
m = subprocess.run(["python3", os.path.join(root, "tools", "matrix.py")], capture_output=True, text=True).stdout.rstrip("\n")
p = os.path.join(root, "DESIGN.md")
s = open(p).read()
a = s.index("| seed | change | file | caught by |")
b = re.search(r"^\d+ seeded changes, \d+ caught, \d+ missed$", s[a:], re.M)
s = s[:a] + m + s[a + b.end():]
open(p, "w").write(s)
print(m.splitlines()[-1])
