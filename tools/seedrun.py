#!/usr/bin/env python3
"""Confirm a seeded property-breaking change and run checks against it.

usage: seedrun.py confirm <dir>            dir contains patch.diff, demo.sh, meta.json (as delivered by a seeding agent)
       seedrun.py run <seeded/id> [Cxx ...] run the named checks (default: the property in meta.json) against the change
Everything happens in a scratch worktree of /repo under /tmp which is removed afterwards; /repo is never touched.
"""
import json, os, shutil, subprocess, sys, time

VERIF = os.path.dirname(os.path.dirname(os.path.abspath(__file__)))
ENV = dict(os.environ, CARGO_NET_OFFLINE="true")


def sh(cmd, **kw):
    return subprocess.run(cmd, shell=True, capture_output=True, text=True, errors="replace", env=ENV, **kw)


def worktree(tag, patch):
    wt = "/tmp/wt_seed_%s" % tag
    sh("git -C /repo worktree remove --force %s" % wt)
    r = sh("git -C /repo worktree add -q --detach %s HEAD" % wt)
    if r.returncode:
        sys.exit("worktree: " + r.stderr)
    if patch:
        r = sh("git -C %s apply %s" % (wt, patch))
        if r.returncode:
            # the repository moved on since the change was made: fall back to a three-way merge of the patch
            r = sh("git -C %s apply -3 %s" % (wt, patch))
        if r.returncode:
            sh("git -C /repo worktree remove --force %s" % wt)
            return None, r.stderr
    return wt, ""


def confirm(d):
    d = os.path.abspath(d)
    patch = os.path.join(d, "patch.diff")
    res = {"applies": False, "builds": False, "tests_pass": False, "demo_patched": None, "demo_clean": None}
    tag = "c%d" % os.getpid()
    wt, err = worktree(tag, None)
    try:
        # copy the build cache first, apply the patch afterwards: cargo decides freshness by mtime
        if os.path.isdir("/repo/target"):
            sh("cp -a /repo/target %s/target" % wt)
        time.sleep(1.1)
        r = sh("git -C %s apply %s" % (wt, patch))
        if r.returncode:
            res["error"] = r.stderr
            return res
        sh("git -C %s diff --name-only | xargs -r touch" % wt, cwd=wt)
        res["applies"] = True
        r = sh("cargo build --offline 2>&1 | tail -3", cwd=wt)
        res["builds"] = os.path.exists(wt + "/target/debug/resynth") and "error" not in r.stdout
        r = sh("cargo test --workspace --no-fail-fast --offline 2>&1 | grep -E '^test result|FAILED|panicked|error(\\[|:)'", cwd=wt)
        lines = r.stdout.strip().splitlines()
        passed = sum(int(l.split(" passed")[0].split()[-1]) for l in lines if l.startswith("test result: ok"))
        res["tests_pass"] = bool(lines) and all(l.startswith("test result: ok") for l in lines)
        res["tests_passed_count"] = passed
        r = sh("bash %s %s" % (os.path.join(d, "demo.sh"), wt), timeout=600)
        res["demo_patched"] = r.returncode
        res["demo_patched_tail"] = (r.stdout + r.stderr)[-600:]
        time.sleep(1.1)
        # back to the clean tree: tracked files restored, files the patch created removed (the build cache stays)
        sh("git -C %s diff --name-only > /tmp/.seed_touch_%s; git -C %s checkout -- . && git -C %s clean -fdq -e target && xargs -r touch < /tmp/.seed_touch_%s; rm -f /tmp/.seed_touch_%s; cargo build --offline"
           % (wt, tag, wt, wt, tag, tag), cwd=wt)
        r = sh("bash %s %s" % (os.path.join(d, "demo.sh"), wt), timeout=600)
        res["demo_clean"] = r.returncode
    finally:
        sh("git -C /repo worktree remove --force %s" % wt)
    res["confirmed"] = bool(res["applies"] and res["builds"] and res["tests_pass"] and res["demo_patched"] == 1
                            and res["demo_clean"] == 0)
    return res


def run(d, props, tier="--quick"):
    d = os.path.abspath(d)
    meta = json.load(open(os.path.join(d, "meta.json")))
    props = props or [meta["property"]]
    tag = "r%d" % os.getpid()
    wt, err = worktree(tag, os.path.join(d, "patch.diff"))
    if not wt:
        sys.exit("patch does not apply: " + err)
    alt = os.path.join(VERIF, ".build", "alt_seed_%s" % tag)
    out = {}
    try:
        for p in props:
            t0 = time.time()
            env = dict(ENV, VERIF_REPO=wt, VERIF_BUILD=alt)
            if os.environ.get("SEED_REGEN"):
                env["VERIF_SELFTEST_REGEN"] = "1"
            r = subprocess.run([os.path.join(VERIF, "check"), p, tier], capture_output=True, text=True, env=env, cwd=VERIF)
            vio = [l for l in r.stdout.splitlines() if l.startswith("VIOLATION")]
            why = [l.strip() for l in r.stdout.splitlines() if l.startswith("  -> ")][:3]
            out[p] = {"exit": r.returncode, "violations": vio[:3], "first": why, "seconds": round(time.time() - t0, 1),
                      "detected": r.returncode != 0 and bool(vio), "tail": r.stdout.strip().splitlines()[-1:] }
    finally:
        sh("git -C /repo worktree remove --force %s" % wt)
        shutil.rmtree(alt, ignore_errors=True)
    return out


if __name__ == "__main__":
    if sys.argv[1] == "confirm":
        print(json.dumps(confirm(sys.argv[2]), indent=1))
    elif sys.argv[1] == "run":
        tier = "--thorough" if "--thorough" in sys.argv else "--quick"
        args = [a for a in sys.argv[3:] if not a.startswith("--")]
        print(json.dumps(run(sys.argv[2], args, tier), indent=1))
