#!/usr/bin/env python3
"""Regenerate MANIFEST.json from the list of claimed properties (edit CLAIMED / PARTIAL below)."""
import json, os
V = os.path.dirname(os.path.dirname(os.path.abspath(__file__)))
props = [json.loads(l) for l in open(os.path.join(V, "properties.jsonl"))]
CLAIMED = sorted(open(os.path.join(V, "tools", "claimed.txt")).read().split())
NOTES = {}
hooks = ["00a46ea"]
checks = []
for p in props:
    if p["id"] not in CLAIMED:
        continue
    i = p["id"]
    checks.append({
        "property_id": i,
        "quick_cmd": "./check %s --quick" % i,
        "thorough_cmd": "./check %s --thorough" % i,
        "evidence_file": "evidence/%s.json" % i,
        "replay_cmd_template": "./check %s --replay {path}" % i,
        "engine": "rsmodel",
        "level_claimed": {"category": "proof",
                          "text": "Theorems in coq/theories/Props/%s.v over the Gallina model of /repo (all inputs, no size bound beyond the "
                                  "ones the property itself states), checked by coqc with closed Print Assumptions and statements pinned in "
                                  "coq/statements.lock; the model is tied to /repo's current source on every run by tables regenerated from the "
                                  "running code and by differential execution of the extracted model against the real binary/library, with the "
                                  "specification-side oracle run on the implementation's own output. %s" % (i, NOTES.get(i, "")),
                          "design_ref": "DESIGN.md section 3, %s" % i},
        "level_note": "Trusted: Coq 8.16.1 kernel and vm_compute (no native_compute); no axioms; the hand-written model of /repo "
                      "(tied by correspondence: sampled, exhaustive where the domain is small); extraction with ExtrOcamlBasic only + "
                      "OCaml driver glue; the Rust harness (hook cfg resynth_verif) and the python generators/comparators.",
        "technique": "machine-checked proof in Coq over an executable model + differential correspondence with the implementation"})
m = {"version": 1, "setup_cmd": "./setup.sh",
     "hooks": {"guard": "resynth_verif",
               "enable": "RUSTFLAGS=\"--cfg resynth_verif\" cargo build --offline (set by lib/common.py for every build)",
               "baseline_off_cmd": "cd /repo && cargo test --workspace --no-fail-fast --offline",
               "source_commits": hooks, "add_only": True},
     "engines": [{"name": "rsmodel", "path": "coq/", "serves_properties": CLAIMED,
                  "kind_free_text": "Coq development (model, specifications, proofs) + extracted OCaml drivers (coq/extract/*)"},
                 {"name": "harness", "path": "harness/", "serves_properties": CLAIMED,
                  "kind_free_text": "Rust crate driving the real library through the cfg(resynth_verif) hook; catalogue dump"}],
     "checks": checks,
     "notes": "See DESIGN.md. Checks print KNOWN-FINDING lines for 'known' entries of KNOWN_FINDINGS.json and VIOLATION lines otherwise; "
              "'fixed' entries suppress nothing (their reverse patches are self-test mutants under selftest/mutants).",
     "not_applicable": [{"property_id": p["id"],
                         "reason": "not yet claimed: the check for this property is still under construction (plan in DESIGN.md section 3)"}
                        for p in props if p["id"] not in CLAIMED]}
json.dump(m, open(os.path.join(V, "MANIFEST.json"), "w"), indent=1)
print("claimed:", " ".join(CLAIMED))
